/*
 * C07: bytes received for a wait that is later cancelled are lost.
 * peer sends "012", reader waits for 10 -> network_read has taken the 3 bytes off the socket but 3 < 10, so no
 * callback; the wait is cancelled; peer sends "3456789"; reader waits for 7: the application now sees "3456789"
 * as the first unconsumed bytes -- "012" never appears.
 */
#include <sys/socket.h>
#include <stdint.h>
#include <stdio.h>
#include <string.h>
#include <unistd.h>
#include "events.h"
#include "netbuf.h"
static int got, status;
static int cb(void * c, int st) { (void)c; got = 1; status = st; return 0; }
int main(void)
{
	int sv[2]; uint8_t * d; size_t n;
	if (socketpair(AF_UNIX, SOCK_STREAM, 0, sv)) return 2;
	struct netbuf_read * R = netbuf_read_init(sv[0]);
	if (write(sv[1], "012", 3) != 3) return 2;
	if (netbuf_read_wait(R, 10, cb, NULL)) return 2;
	events_run();			/* the socket is readable: network_read takes 3 bytes, wants 7 more */
	if (got) { printf("unexpected callback\n"); return 2; }
	netbuf_read_wait_cancel(R);
	if (write(sv[1], "3456789", 7) != 7) return 2;
	if (netbuf_read_wait(R, 7, cb, NULL)) return 2;
	while (!got) events_run();
	netbuf_read_peek(R, &d, &n);
	printf("status %d, %zu bytes visible, first bytes: %.*s\n", status, n, (int)(n < 10 ? n : 10), (const char *)d);
	if (n >= 1 && d[0] == '0') { printf("OK: stream intact\n"); return 0; }
	printf("LOST: the peer's first bytes \"012\" never reached the application\n");
	return 1;
}
