#include <sys/socket.h>
#include <stdio.h>
#include <stdint.h>
#include "netbuf.h"
#include "events.h"
int main(void){ int sv[2]; socketpair(AF_UNIX, SOCK_STREAM, 0, sv);
 struct netbuf_write * W = netbuf_write_init(sv[0], NULL, NULL);
 uint8_t b[1] = {0};
 int rc = netbuf_write_write(W, b, 0);
 printf("zero-length write returned %d\n", rc);
 rc = netbuf_write_write(W, (const uint8_t *)"abc", 3);

 return 0; }
