#include <stdio.h>
#include <stdint.h>
#include <stddef.h>
#include "parsenum.h"
int main(void){ size_t s; uintmax_t u; uint32_t w; int r;
 r=PARSENUM(&s,"-1"); printf("size_t \"-1\": r=%d errno=%d val=%zu\n",r,errno,s);
 r=PARSENUM(&u,"-5",0,UINTMAX_MAX); printf("uintmax \"-5\" [0,max]: r=%d errno=%d val=%ju\n",r,errno,u);
 r=PARSENUM(&w,"-1"); printf("u32 \"-1\": r=%d errno=%d\n",r,errno);
 r=PARSENUM(&s,"-0"); printf("size_t \"-0\": r=%d errno=%d val=%zu\n",r,errno,s);
 r=PARSENUM(&s,"-18446744073709551615"); printf("size_t \"-18446744073709551615\": r=%d errno=%d val=%zu\n",r,errno,s);
 return 0;}
