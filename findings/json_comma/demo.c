#include <stdint.h>
#include <stdio.h>
#include <stdlib.h>
#include <string.h>
#include "json.h"
int main(void){
	/* (1) truncated nested object ending in a comma: over-read past the end of an exact-size buffer */
	const char * t = "{\"x\":{\"\":0,";
	size_t n = strlen(t); uint8_t * b = malloc(n); memcpy(b, t, n);
	const uint8_t * r = json_find(b, b + n, "k");
	printf("truncated: returned offset %ld of %zu\n", (long)(r - b), n);
	/* (2) valid JSON with a space after a comma inside a nested array: later key not found */
	const char * v = "{\"k\":[1, 2],\"x\":5}";
	n = strlen(v); uint8_t * c = malloc(n); memcpy(c, v, n);
	r = json_find(c, c + n, "x");
	printf("valid: %s\n", (r < c + n && *r == '5') ? "found x" : "MISSED x");
	return (r < c + n && *r == '5') ? 0 : 1;
}
