/*
 * C07 (writer): netbuf_write.c -- inductive steps from an ARBITRARY writer state:
 *   INFL in {0,1} buffers handed to network_write, Q in {0,1,2} buffers queued behind it, each holding 1..buflen
 *   bytes (buflen PREBUF, PREBUF+4 for the last one when LASTBIG), failed in {0,1} (then nothing is in flight).
 * Ghost: the PENDING STREAM = bytes of the in-flight buffer followed by the queued buffers in order.  Checked per step:
 *   write / reserve+consume  pending' = pending || data, the launch (if any) hands network_write exactly the head
 *                            buffer with minwrite == its whole length and a non-zero length (network_write's
 *                            precondition), at most one request in flight, after failure everything is discarded;
 *   completion               n == length: buffer released, next head launched; anything else: failed, failure
 *                            callback exactly once, nothing further sent;
 *   free                     in-flight request cancelled once, nothing leaked.
 * "The peer receives a prefix of the concatenation of all writes" follows by induction: every launch hands over the
 * head of the pending stream in full, completions remove exactly it, appends go to the tail.
 * network_write / network_write_cancel are recording models of network.h's contract (C06 decides the real ones).
 */
#include <stdint.h>
#include <stdlib.h>
#include <string.h>
#include <sys/types.h>
#include <limits.h>
#include "vh.h"
/*
 * memcpy inside netbuf_write_write: single-observation model.  The observed index vh_di is chosen before the code
 * runs and is arbitrary, so "byte vh_di was copied" for that one index is "every byte was copied"; the destination
 * must have room for all n bytes.  (A 4097-byte copy to a pointer that symex cannot resolve costs 11M clauses.)
 */
static size_t vh_di; static int mc_calls, mc_bad;
static void * vh_memcpy(void * dst, const void * src, size_t n)
{
	mc_calls++;
#ifdef VH_CBMC
	if (__CPROVER_OBJECT_SIZE(dst) - __CPROVER_POINTER_OFFSET(dst) < n || __CPROVER_OBJECT_SIZE(src) - __CPROVER_POINTER_OFFSET(src) < n) mc_bad = 1;
	if (vh_di < n) ((uint8_t *)dst)[vh_di] = ((const uint8_t *)src)[vh_di];
	return dst;
#else
	return memcpy(dst, src, n);
#endif
}
#define memcpy vh_memcpy
#include "netbuf_write.c"
#undef memcpy
#ifndef WL
#define WL 5
#endif
#ifndef LASTBIG
#define LASTBIG 0
#endif
#ifndef CL
#define CL WL
#endif
/* size of the buffers in the pre-state: the code is parametric in an existing buffer's size (it only compares
 * buflen - datalen with the request); 4096 / len are what it gives NEW buffers, and that is checked.  Small
 * pre-state buffers keep the appends at symbolic offsets cheap and exercise "fits" and "does not fit" for len 1 and 5. */
#ifndef PREBUF
#define PREBUF 8
#endif

static int nw_calls, nw_refuse, nw_zero; static const uint8_t * nw_buf; static size_t nw_len, nw_min; static int (*nw_cb)(void *, ssize_t); static void * nw_ck; static char TOK_W;
void * network_write(int fd, const uint8_t * buf, size_t buflen, size_t minwrite, int (*cb)(void *, ssize_t), void * ck)
{
	(void)fd; nw_calls++;
	if (buflen == 0 || buflen > (size_t)SSIZE_MAX) nw_zero = 1;	/* network_write asserts buflen != 0 and buflen <= SSIZE_MAX */
	if (nw_refuse) return NULL;
	nw_buf = buf; nw_len = buflen; nw_min = minwrite; nw_cb = cb; nw_ck = ck;
	return &TOK_W;
}
static int nwc_calls; void network_write_cancel(void * c) { nwc_calls++; CHECK(c == &TOK_W, "cancels the request it made"); }
static int f_calls; static void * f_ck; static char FC;
static int fcb(void * c) { f_calls++; f_ck = c; return 0; }

static struct writebuf * B[3]; static size_t DL[3]; static int NB, INFL0;
static struct writebuf * mkbuf(size_t buflen)
{
	struct writebuf * WB = malloc(sizeof(*WB)); ASSUME(WB != NULL);
	WB->buflen = buflen; WB->buf = malloc(buflen); ASSUME(WB->buf != NULL);
	WB->datalen = nd_size(); ASSUME(WB->datalen >= 1 && WB->datalen <= buflen);
	return WB;
}
static struct netbuf_write * mk(int infl, int q)
{
	struct netbuf_write * W = malloc(sizeof(*W)); ASSUME(W != NULL);
	W->s = 3; W->ssl = NULL; W->reserved = 0; W->fail_callback = fcb; W->fail_cookie = &FC;
	STAILQ_INIT(&W->buffers); W->write_cookie = NULL; W->curr = NULL;
	NB = 0; INFL0 = infl;
	W->failed = infl ? 0 : nd_bool();
	if (infl) { B[NB] = mkbuf(PREBUF); W->curr = B[NB]; W->write_cookie = &TOK_W; NB++; }
	for (int i = 0; i < q; i++) { B[NB] = mkbuf((LASTBIG && i == q - 1) ? PREBUF + 4 : PREBUF); STAILQ_INSERT_TAIL(&W->buffers, B[NB], entries); NB++; }
	for (int i = 0; i < NB; i++) DL[i] = B[i]->datalen;
	return W;
}
/* the pending stream after a step, read through the real structure */
static size_t pend_len(struct netbuf_write * W)
{
	size_t t = W->curr ? W->curr->datalen : 0; struct writebuf * WB;
	STAILQ_FOREACH(WB, &W->buffers, entries) t += WB->datalen;
	return t;
}
static int pend_at(struct netbuf_write * W, size_t pos, uint8_t * out)
{
	struct writebuf * WB;
	if (W->curr) { if (pos < W->curr->datalen) { *out = W->curr->buf[pos]; return 1; } pos -= W->curr->datalen; }
	STAILQ_FOREACH(WB, &W->buffers, entries) { if (pos < WB->datalen) { *out = WB->buf[pos]; return 1; } pos -= WB->datalen; }
	return 0;
}
static int inv(struct netbuf_write * W)
{
	struct writebuf * WB; int ok = 1;
	if ((W->write_cookie != NULL) != (W->curr != NULL)) ok = 0;
	if (W->failed && W->write_cookie != NULL) ok = 0;
	if (W->curr && !(W->curr->datalen >= 1 && W->curr->datalen <= W->curr->buflen)) ok = 0;
	STAILQ_FOREACH(WB, &W->buffers, entries) if (!(WB->datalen >= 1 && WB->datalen <= WB->buflen)) ok = 0;
	return ok && W->reserved == 0;
}
static void launch_ok(struct netbuf_write * W, struct writebuf * head, size_t headlen)
{
	CHECK(!nw_zero, "network_write never asked to write 0 bytes (its precondition)");
	CHECK(nw_buf == head->buf && nw_len == headlen, "launch hands over exactly the head buffer's bytes");
	CHECK(nw_min == headlen, "and asks for all of them (a short write would be taken for a failure)");
	CHECK(nw_cb == writbuf && nw_ck == W && W->curr == head && W->write_cookie == &TOK_W, "completion routed back; buffer recorded as in flight");
}

/* ---- write / reserve+consume ---- */
static void op_append(int infl, int q, int viareserve)
{
	struct netbuf_write * W = mk(infl, q);
	size_t tot0 = 0; for (int i = 0; i < NB; i++) tot0 += DL[i];
	size_t g = nd_size(); ASSUME(g < 65536); uint8_t v0 = 0; int have0 = pend_at(W, g, &v0);	/* observed position of the old pending stream */
	uint8_t * data = malloc(WL ? WL : 1); ASSUME(data != NULL);
	size_t di = nd_size(); ASSUME(di < (WL ? WL : 1)); vh_di = di;
	int failed0 = W->failed; struct writebuf * head0 = infl ? NULL : (q ? B[0] : NULL); size_t headlen0 = head0 ? head0->datalen : 0;
	nw_refuse = nd_bool();
	int rc; size_t added;
	if (!viareserve) { rc = netbuf_write_write(W, data, WL); added = WL; }
	else {
		uint8_t * p = netbuf_write_reserve(W, WL);
		CHECK(p != NULL, "reserve succeeds when allocation does");
		if (p == NULL) return;
		CHECK(W->reserved == 1 && nw_calls == 0, "nothing is sent while space is reserved");
#ifdef VH_CBMC
		CHECK(__CPROVER_OBJECT_SIZE(p) - __CPROVER_POINTER_OFFSET(p) >= WL, "the reservation has room for len bytes");
#endif
		if (di < CL) p[di] = data[di];	/* the caller fills the reservation; one observed byte (see vh_memcpy) */
		rc = netbuf_write_consume(W, CL); added = failed0 ? 0 : CL;
	}
	if (failed0) {
		CHECK(rc == 0 && nw_calls == 0 && f_calls == 0, "after a failure writes are discarded silently");
		if (!viareserve) CHECK(pend_len(W) == tot0, "and queue nothing");
		REACHED();
		return;
	}
	CHECK(f_calls == 0, "no failure callback from a write");
	CHECK(!mc_bad, "the copy into the reservation stays inside both objects");
	CHECK(pend_len(W) == tot0 + added, "pending stream grew by exactly the bytes written");
	uint8_t v1 = 0;
	if (have0) CHECK(pend_at(W, g, &v1) && v1 == v0, "bytes already pending keep their position and value");
	if (di < added) CHECK(pend_at(W, tot0 + di, &v1) && v1 == data[di], "new bytes follow the old ones in order");
	if (infl) { CHECK(nw_calls == 0 && rc == 0, "a request is already in flight: nothing launched"); CHECK(W->curr == B[0] && W->write_cookie == &TOK_W, "in-flight request untouched"); }
	else if (tot0 + added == 0) CHECK(nw_calls == 0 && rc == 0, "nothing pending: nothing launched");
	else {
		CHECK(nw_calls == 1, "idle with bytes pending: exactly one launch");
		CHECK((rc == 0) == !nw_refuse, "write fails only if the transport refuses the request");
		if (rc == 0) { struct writebuf * h = head0 ? head0 : W->curr; CHECK(h != NULL, "something in flight"); if (h != NULL) { launch_ok(W, h, h->datalen); if (head0 && q == 2) CHECK(h->datalen == headlen0, "a full-queue head is sent as it was"); } }
	}
	{ struct writebuf * l = STAILQ_LAST(&W->buffers, writebuf, entries); if (l == NULL) l = W->curr;
	  if (l != NULL && l != B[NB ? NB - 1 : 0]) CHECK(l->buflen >= WL && l->buflen >= 1 && VH_EXACT_OBJECT(l->buf, l->buflen), "a new buffer holds at least the bytes written (the coalescing size itself, 4096, is an implementation choice and is not asserted)"); }
	CHECK(!nw_zero, "network_write never asked to write 0 bytes (its precondition)");
	CHECK(inv(W), "invariant re-established (one request at most, every queued buffer non-empty and within its size)");
	REACHED();
}
#define ALLSHAPES(F, ...) switch (nd_int_in(0, 5)) { case 0: F(0, 0, __VA_ARGS__); break; case 1: F(0, 1, __VA_ARGS__); break; case 2: F(0, 2, __VA_ARGS__); break; \
	case 3: F(1, 0, __VA_ARGS__); break; case 4: F(1, 1, __VA_ARGS__); break; default: F(1, 2, __VA_ARGS__); break; }
void h_write(void) { ALLSHAPES(op_append, 0) }
void h_reserve(void) { ALLSHAPES(op_append, 1) }

/* ---- C14: the same append steps with a failing allocator (--malloc-may-fail): the transport never refuses here, so the
 * only source of failure is an allocation inside netbuf_write_reserve ---- */
static void op_allocfail(int infl, int q, int viareserve)
{
	struct netbuf_write * W = mk(infl, q);
	size_t tot0 = 0; for (int i = 0; i < NB; i++) tot0 += DL[i];
	size_t g = nd_size(); ASSUME(g < 65536); uint8_t v0 = 0, v1 = 0; int have0 = pend_at(W, g, &v0);
	uint8_t * data = malloc(WL ? WL : 1); ASSUME(data != NULL);
	vh_di = 0; nw_refuse = 0;
	int failed0 = W->failed, rc = 0, refused = 0;
	if (!viareserve) { rc = netbuf_write_write(W, data, WL); refused = (rc != 0); }
	else {
		uint8_t * p = netbuf_write_reserve(W, WL);
		if (p == NULL) refused = 1;
		else rc = netbuf_write_consume(W, CL);
	}
	CHECK(rc == 0 || rc == -1, "documented return values");
	if (refused) {
		if (!viareserve) CHECK(!failed0, "netbuf_write_write on a writer that already failed discards silently and allocates nothing");
		CHECK(pend_len(W) == tot0 && nw_calls == 0 && f_calls == 0, "allocation failure: reported, nothing queued, nothing sent, no callback");
		if (have0) CHECK(pend_at(W, g, &v1) && v1 == v0, "pending bytes untouched");
		CHECK(W->curr == (infl ? B[0] : NULL), "in-flight request untouched");
	} else CHECK(rc == 0, "with memory available the step succeeds (the transport accepts every request here)");
	CHECK(!nw_zero, "network_write never asked to write 0 bytes");
	netbuf_write_free(W); free(data);	/* --memory-leak-check: nothing is left behind on either outcome */
	REACHED();
}
void h_allocfail_write(void) { ALLSHAPES(op_allocfail, 0) }
void h_allocfail_reserve(void) { ALLSHAPES(op_allocfail, 1) }


/* ---- completion ---- */
static void op_complete(int infl, int q, int dummy)
{
	(void)dummy; (void)infl;
	struct netbuf_write * W = mk(1, q);
	size_t d = DL[0];
	ssize_t n = (ssize_t)nd_i64(); ASSUME(n >= -1 && n <= (ssize_t)d);	/* network.h: -1, or between minwrite and buflen; anything short counts as failure */
	size_t g = nd_size(); ASSUME(g < 65536); uint8_t v0 = 0, v1 = 0; int have0 = pend_at(W, d + g, &v0);
	struct writebuf * next = q ? B[1] : NULL; size_t nextlen = q ? DL[1] : 0;
	nw_refuse = nd_bool();
	int rc = writbuf(W, n);
	if ((size_t)n == d) {
		CHECK(f_calls == 0 && W->failed == 0, "complete write is not a failure");
		if (q == 0) CHECK(nw_calls == 0 && rc == 0 && W->curr == NULL && W->write_cookie == NULL, "nothing more to send");
		else {
			CHECK(nw_calls == 1 && (rc == 0) == !nw_refuse, "next buffer launched at once");
			if (rc == 0) launch_ok(W, next, nextlen);
		}
		if (have0 && rc == 0) CHECK(pend_at(W, g, &v1) && v1 == v0, "pending stream lost exactly the bytes that were sent");
		CHECK(inv(W), "invariant re-established");
	} else {
		CHECK(W->failed == 1 && f_calls == 1 && f_ck == &FC, "transport failure (or short write): failure callback exactly once");
		CHECK(nw_calls == 0 && W->write_cookie == NULL && W->curr == NULL, "nothing further is sent");
	}
	REACHED();
}
void h_complete(void) { switch (nd_int_in(0, 2)) { case 0: op_complete(1, 0, 0); break; case 1: op_complete(1, 1, 0); break; default: op_complete(1, 2, 0); break; } }

/* ---- init, free ---- */
int setsockopt(int s, int l, int o, const void * v, socklen_t n) { (void)s; (void)l; (void)o; (void)v; (void)n; return nd_int(); }
static void op_free(int infl, int q, int dummy)
{
	(void)dummy;
	struct netbuf_write * W = mk(infl, q);
	netbuf_write_free(W);
	CHECK(nwc_calls == infl && nw_calls == 0 && f_calls == 0, "free cancels the in-flight request once, sends nothing, reports nothing");
	REACHED();
}
void h_free(void)
{
	if (nd_bool()) { ALLSHAPES(op_free, 0) }
	else {
		struct netbuf_write * W = netbuf_write_init(4, nd_bool() ? fcb : NULL, &FC);
		ASSUME(W != NULL);
		CHECK(W->failed == 0 && W->reserved == 0 && W->write_cookie == NULL && W->curr == NULL && STAILQ_EMPTY(&W->buffers) && W->fail_callback != NULL && inv(W), "init: idle, empty, not failed");
		netbuf_write_free(NULL);
		netbuf_write_free(W);
		REACHED();
	}
}
