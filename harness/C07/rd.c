/*
 * C07 (reader): netbuf_read.c -- inductive steps from an ARBITRARY reader state bufpos <= datalen <= buflen
 * (buf an object of exactly buflen bytes; the code is parametric in buflen, the literal 4096 is only checked to be
 * what init sets), holding a window of a ghost peer stream.  network_read / immediate events are models that record
 * the request; that network_read delivers the next stream bytes at the pointer it was given is C06.
 */
#include <stdint.h>
#include <stdlib.h>
#include <string.h>
#include "vh.h"
#include "netbuf_read.c"
#ifndef MAXLEN
#define MAXLEN 20
#endif
static uint8_t G[32];	/* ghost: the unconsumed bytes before the step */
static size_t bl0, bp0, dl0;
static int nr_calls, nr_refuse; static uint8_t * nr_buf; static size_t nr_cap, nr_min; static int (*nr_cb)(void *, ssize_t); static void * nr_ck; static char TOK_R, TOK_I;
void * network_read(int fd, uint8_t * buf, size_t buflen, size_t minread, int (*cb)(void *, ssize_t), void * ck)
{ (void)fd; nr_calls++; if (nr_refuse) return NULL; nr_buf = buf; nr_cap = buflen; nr_min = minread; nr_cb = cb; nr_ck = ck; return &TOK_R; }
static int nrc_calls; void network_read_cancel(void * c) { nrc_calls++; CHECK(c == &TOK_R, "cancels the request it made"); }
static int im_calls, im_refuse, imc_calls; static int (*im_cb)(void *); static void * im_ck;
void * events_immediate_register(int (*f)(void *), void * c, int prio) { (void)prio; im_calls++; if (im_refuse) return NULL; im_cb = f; im_ck = c; return &TOK_I; }
void events_immediate_cancel(void * c) { imc_calls++; CHECK(c == &TOK_I, "cancels the immediate it registered"); }
static int u_calls, u_status; static void * u_ck; static char UC;
static int ucb(void * c, int st) { u_calls++; u_ck = c; u_status = st; return 0; }

static struct netbuf_read * mk(size_t buflen)
{
	struct netbuf_read * R = malloc(sizeof(*R));
	ASSUME(R != NULL);
	R->s = 3; R->ssl = NULL; R->callback = NULL; R->cookie = NULL; R->read_cookie = NULL; R->immediate_cookie = NULL;
	R->buflen = buflen; R->buf = malloc(buflen); ASSUME(R->buf != NULL);
	R->bufpos = nd_size(); R->datalen = nd_size();
	ASSUME(R->bufpos <= R->datalen && R->datalen <= buflen);
	for (size_t i = 0; i < 8; i++) if (i < buflen) R->buf[i] = nd_u8();
	for (size_t i = 0; i < 8; i++) if (R->bufpos + i < R->datalen) G[i] = R->buf[R->bufpos + i];
	bl0 = buflen; bp0 = R->bufpos; dl0 = R->datalen;
	return R;
}
static void window_kept(struct netbuf_read * R, size_t avail)
{
	uint8_t * d; size_t n;
	netbuf_read_peek(R, &d, &n);
	CHECK(n >= avail && d == R->buf + R->bufpos, "peek starts at the first unconsumed byte");
	size_t i = nd_size();	/* no ASSUME here: with avail == 0 it would silently drop the path and everything checked after it */
	if (i < avail && i < 8) CHECK(d[i] == G[i], "unconsumed bytes preserved in order (across growth and compaction)");
}
static void op_wait(size_t buflen, size_t len)
{
	struct netbuf_read * R = mk(buflen);
	size_t avail = dl0 - bp0;
	nr_refuse = nd_bool(); im_refuse = nd_bool();
	int rc = netbuf_read_wait(R, len, ucb, &UC);
	CHECK(u_calls == 0, "no callback from inside wait");
	if (avail >= len) {
		CHECK(nr_calls == 0 && im_calls == 1, "enough buffered: success is scheduled without reading");
		CHECK((rc == 0) == !im_refuse, "fails only if the event cannot be scheduled");
		if (rc == 0) CHECK(im_cb == callback_success && im_ck == R && R->immediate_cookie == &TOK_I && R->read_cookie == NULL, "pending success");
	} else {
		CHECK(im_calls == 0, "not enough buffered: never reports success early");
		if (rc == 0) {
			CHECK(nr_calls == 1 && R->read_cookie == &TOK_R && R->immediate_cookie == NULL, "one read request pending");
			CHECK(nr_buf == R->buf + R->datalen, "read lands directly after the buffered data");
			CHECK(nr_cap == R->buflen - R->datalen && VH_EXACT_OBJECT(R->buf, R->buflen), "read capacity = free space to the end of the allocation");
			CHECK(nr_min >= 1 && nr_min <= len - avail && nr_min <= nr_cap, "minimum read between 1 and the bytes still missing for k, and it fits");
			CHECK(nr_cb == callback_read && nr_ck == R, "completion routed back to this reader");
		}
	}
	if (rc == 0) { CHECK(R->callback == ucb && R->cookie == &UC, "callback recorded"); }
	else CHECK(rc == -1 && R->read_cookie == NULL && R->immediate_cookie == NULL, "failure leaves nothing pending");
	CHECK(R->bufpos <= R->datalen && R->datalen <= R->buflen && R->datalen - R->bufpos == avail, "invariant; amount of buffered data unchanged");
	window_kept(R, avail);
	netbuf_read_wait_cancel(R);
	CHECK(R->read_cookie == NULL && R->immediate_cookie == NULL, "cancel leaves nothing pending");
	CHECK(nrc_calls == (rc == 0 && avail < len) && imc_calls == (rc == 0 && avail >= len), "cancel undoes exactly what was pending");
	netbuf_read_free(R);
}
/* buffer size and wait length are constants on each symex path (a symbolic length makes the growth allocation
 * symbolic-size: no answer in 280 s); bufpos/datalen/content/refusals stay symbolic */
#ifndef WLEN
#define WLEN 5
#endif
void h_wait(void) { switch (nd_int_in(0, 2)) { case 0: op_wait(1, WLEN); break; case 1: op_wait(4, WLEN); break; default: op_wait(8, WLEN); break; } REACHED(); }

/*
 * A wait that is cancelled after SOME of its bytes arrived: network.h's read request takes bytes off the socket as
 * they come (C06) and calls back once minread of them are there; until then the request stays pending.  Whatever the
 * transport delivered before the cancel must still reach the application ("nothing lost").
 */
static void op_partial_cancel(size_t buflen, size_t len)
{
	struct netbuf_read * R = mk(buflen);
	size_t avail = dl0 - bp0;
	ASSUME(avail < len);
	int rc = netbuf_read_wait(R, len, ucb, &UC);
	ASSUME(rc == 0);
	CHECK(nr_calls == 1 && nr_min >= 1 && nr_min <= nr_cap, "one read request pending");
	size_t p = nd_size(); ASSUME(p >= 1 && p <= nr_cap);	/* the transport delivers p bytes into the request's buffer */
	size_t j = nd_size(); ASSUME(j < p); uint8_t v = nd_u8();
	nr_buf[j] = v;	/* one observed byte of the delivery (arbitrary index) */
	uint8_t * land = nr_buf;
	if (p >= nr_min) {
		CHECK(nr_cb == callback_read && nr_ck == R, "completion routed back to this reader");
		nr_calls = 0;
		(void)callback_read(R, (ssize_t)p);	/* the request completes (called directly: through the pointer CBMC unwinds a spurious recursion) */
	}
	/* otherwise the request is still pending with p < minread bytes received */
	netbuf_read_wait_cancel(R);
	CHECK(R->read_cookie == NULL && R->immediate_cookie == NULL, "cancel leaves nothing pending");
	uint8_t * d; size_t n;
	netbuf_read_peek(R, &d, &n);
	CHECK(n == avail + p, "every byte the transport delivered before the cancel is still there (nothing lost)");
	if (n == avail + p) CHECK(d + avail == land && d[avail + j] == v, "and follows the earlier unconsumed bytes in order");
	window_kept(R, avail);
	netbuf_read_free(R);
}
void h_partial_cancel(void) { switch (nd_int_in(0, 1)) { case 0: op_partial_cancel(4, WLEN); break; default: op_partial_cancel(8, WLEN); break; } REACHED(); }

static void op_complete(size_t buflen, size_t len)
{
	struct netbuf_read * R = mk(buflen);
	size_t avail = dl0 - bp0;
	ASSUME(len > avail && len <= buflen - bp0);	/* no growth / compaction here (h_wait covers them): the ghost window stays in place */
	int rc = netbuf_read_wait(R, len, ucb, &UC);
	ASSUME(rc == 0);
	size_t got = 0;
	for (int round = 0; round < 2; round++) {
		/* a request is pending: the transport answers within network.h's contract */
		CHECK(R->read_cookie == &TOK_R && nr_cb == callback_read && nr_ck == R, "a read request is pending and routed back");
		CHECK(nr_buf == R->buf + R->datalen && nr_cap == R->buflen - R->datalen && nr_min >= 1 && nr_min <= nr_cap, "it lands right after the buffered data, inside the allocation");
		ssize_t n = (ssize_t)nd_i64();
		ASSUME(n == -1 || n == 0 || (n >= (ssize_t)nr_min && n <= (ssize_t)nr_cap));	/* C06: what network_read can report */
		nr_calls = 0; nr_refuse = nd_bool();
		int r2 = callback_read(R, n);
		CHECK(r2 == 0, "callback status passed through");
		if (n > 0) got += (size_t)n;
		if (n <= 0) {
			CHECK(u_calls == 1 && u_ck == &UC && u_status == (n == 0 ? 1 : -1) && R->read_cookie == NULL && nr_calls == 0, "EOF / transport error reported once, nothing left pending");
			CHECK(R->datalen == dl0 + got, "data untouched");
			break;
		}
		CHECK(R->datalen == dl0 + got && R->bufpos == bp0, "received bytes accounted for at once");
		if (avail + got >= len) { CHECK(u_calls == 1 && u_ck == &UC && u_status == 0 && R->read_cookie == NULL && nr_calls == 0, "k unconsumed bytes are there: success reported exactly once"); break; }
		/* not enough yet: no callback unless the next request cannot be made */
		if (nr_refuse) { CHECK(u_calls == 1 && u_status == -1 && R->read_cookie == NULL, "cannot continue reading: failure reported once"); break; }
		CHECK(u_calls == 0 && nr_calls == 1, "fewer than k bytes so far: never reports success early, keeps reading");
		if (round == 1) break;
	}
	window_kept(R, avail);
	netbuf_read_wait_cancel(R);
	netbuf_read_free(R);
}
void h_complete(void) { switch (nd_int_in(0, 1)) { case 0: op_complete(4, WLEN); break; default: op_complete(8, WLEN); break; } REACHED(); }

void h_misc(void)
{
	struct netbuf_read * R = mk(8);
	size_t avail = dl0 - bp0;
	if (nd_bool()) {
		size_t j = nd_size_le(avail);
		netbuf_read_consume(R, j);
		uint8_t * d; size_t n;
		netbuf_read_peek(R, &d, &n);
		CHECK(n == avail - j, "consume(j) removes exactly j bytes");
		size_t i = nd_size();
		if (i < n && i + j < 8) CHECK(d[i] == G[i + j], "and the rest follows in order");
	} else {
		R->callback = ucb; R->cookie = &UC; R->immediate_cookie = &TOK_I;
		int rc = callback_success(R);
		CHECK(rc == 0 && u_calls == 1 && u_status == 0 && R->immediate_cookie == NULL, "scheduled success delivered once");
	}
	struct netbuf_read * N = netbuf_read_init(5);
	ASSUME(N != NULL);
	CHECK(N->bufpos == 0 && N->datalen == 0 && N->buflen >= 1 && VH_EXACT_OBJECT(N->buf, N->buflen) && N->read_cookie == NULL && N->immediate_cookie == NULL && N->s == 5, "init establishes the invariant with a non-empty buffer");
	netbuf_read_free(N);
	REACHED();
}
