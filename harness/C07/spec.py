def obligations(tier):
    T = tier == "thorough"
    ml = 40 if T else 20
    obs = []
    for ent, nm, what in (("h_wait", "reader-wait", "netbuf_read_wait(k) from an arbitrary window: immediate success iff k bytes are already buffered; else one read request at buf+datalen with capacity to the end of the allocation and minimum = missing bytes; growth (doubling or to k) and memmove compaction preserve the unconsumed bytes; refusal leaves nothing pending; cancel undoes exactly what was pending"),
                          ("h_complete", "reader-complete", "completion with any n in [min, cap], EOF or error: exactly one callback (0 / 1 / -1); on success k unconsumed bytes visible starting at the first unconsumed byte"),
                          ("h_misc", "reader-consume-init", "consume(j) drops exactly j bytes; scheduled success delivered once; init gives an empty 4096-byte reader")):
      lens = [None] if ent != "h_wait" else ([0, 1, 2, 3, 4, 5, 7, 8, 9, 12, 16, 17, 20] + ([33, 40] if T else []))
      for wl in lens:
        obs.append(dict(name=nm + ("" if wl is None else "-k%d" % wl), harness="rd.c", entry=ent, defs=["MAXLEN=%d" % ml] + ([] if wl is None else ["WLEN=%d" % wl]), unwind=12, backends=["cadical"], timeout=1800 if T else 280, claim=what,
                        bounds="buffer sizes 1, 4, 8 with every bufpos <= datalen <= buflen; wait length k = %s (one obligation per k; k > 2x buffer forces growth to k)" % ("symbolic" if wl is None else wl),
                        stubs=["network_read/network_read_cancel, events_immediate_register/cancel -> recording models"]))
    return obs
TRUSTED = ["CBMC 6.11 C semantics", "cadical", "C06 for what network_read reports"]
ASSUMPTIONS = ["the buffered WRITER (netbuf_write.c) has no obligation: that half of C07 is NOT decided here", "TLS variant (netbuf_ssl) outside the claim"]
EXPLANATION = ""
