def obligations(tier):
    T = tier == "thorough"
    ml = 40 if T else 20
    obs = []
    for ent, nm, what in (("h_wait", "reader-wait", "netbuf_read_wait(k) from an arbitrary window: immediate success iff k bytes are already buffered; else one read request at buf+datalen with capacity to the end of the allocation and minimum between 1 and the missing bytes; growth (doubling or to k) and memmove compaction preserve the unconsumed bytes; refusal leaves nothing pending; cancel undoes exactly what was pending"),
                          ("h_complete", "reader-complete", "wait(k) then up to two completions with any n in [min, cap], EOF or error: received bytes are accounted for at once; success is reported exactly once and only when k unconsumed bytes are there; otherwise the reader keeps reading right after the data; EOF -> 1, error or refusal -> -1, once"),
                          ("h_misc", "reader-consume-init", "consume(j) drops exactly j bytes; scheduled success delivered once; init gives an empty 4096-byte reader")):
      lens = [None] if ent == "h_misc" else [1, 2, 3, 4, 5, 8] if ent == "h_complete" else ([0, 1, 2, 3, 4, 5, 7, 8, 9, 12, 16, 17, 20] + ([33, 40] if T else []))
      for wl in lens:
        obs.append(dict(name=nm + ("" if wl is None else "-k%d" % wl), harness="rd.c", entry=ent, defs=["MAXLEN=%d" % ml] + ([] if wl is None else ["WLEN=%d" % wl]), unwind=12, backends=["cadical"], timeout=1800 if T else 280, claim=what,
                        bounds="buffer sizes 1, 4, 8 with every bufpos <= datalen <= buflen; wait length k = %s (one obligation per k; k > 2x buffer forces growth to k)" % ("symbolic" if wl is None else wl),
                        stubs=["network_read/network_read_cancel, events_immediate_register/cancel -> recording models"]))
    for wl in [2, 3, 5, 8, 9, 17]:
        obs.append(dict(name="reader-cancel-after-partial-k%d" % wl, harness="rd.c", entry="h_partial_cancel", defs=["MAXLEN=%d" % ml, "WLEN=%d" % wl], unwind=12, backends=["cadical"], timeout=1800 if T else 280,
                        claim="a wait(k=%d) cancelled after the transport delivered any p >= 1 bytes of it (fewer than needed, or enough): those bytes are still buffered, in order, after the cancel" % wl,
                        bounds="buffer sizes 4, 8; k = %d; p in [1, capacity]" % wl, stubs=["network_read -> recording model of network.h: bytes land in the request's buffer as they arrive, callback once minread are there"]))
    # ---- writer (netbuf_write.c)
    to = 1800 if T else 280
    wst = ["memcpy in netbuf_write_write -> single-observation copy (one arbitrary index, room for all n checked)", "network_write/network_write_cancel -> recording models of network.h's contract (non-zero length asserted by the real one)", "setsockopt -> arbitrary result"]
    for wl in [0, 1, 5, 4095, 4096, 4097] + ([2, 4000, 5001, 9000] if T else []):
      for big in (0, 1):
        obs.append(dict(name="writer-write-len%d%s" % (wl, "-lastbig" if big else ""), harness="wr.c", entry="h_write", defs=["WL=%d" % wl, "LASTBIG=%d" % big], unwind=6, flags=["--arrays-uf-always"], backends=["cadical"], timeout=to,
                        claim="netbuf_write_write(len=%d) from an arbitrary writer state (0/1 in flight x 0..2 queued, failed or not): pending stream' = pending stream || data, at most one request in flight, a launch hands network_write the whole head buffer with minwrite = its length and never 0 bytes, writes after a failure are discarded silently" % wl,
                        bounds="queue shapes {0,1} in flight x {0,1,2} queued, pre-state buffers of 8 bytes (last one 12 if lastbig; the code is parametric in an existing buffer's size) holding 1..buflen bytes, new buffers as the code sizes them (4096 / len); write length %d" % wl, stubs=wst))
    for wl, cl in [(0, 0), (5, 0), (5, 3), (5, 5), (4097, 4097), (4097, 1)] + ([(4096, 4096), (100, 99)] if T else []):
        obs.append(dict(name="writer-reserve%d-consume%d" % (wl, cl), harness="wr.c", entry="h_reserve", defs=["WL=%d" % wl, "CL=%d" % cl, "LASTBIG=0"], unwind=6, flags=["--arrays-uf-always"], backends=["cadical"], timeout=to,
                        claim="netbuf_write_reserve(%d) returns room for that many bytes without sending; netbuf_write_consume(%d) appends exactly the bytes written there and launches as write does" % (wl, cl),
                        bounds="same queue shapes", stubs=wst))
    obs.append(dict(name="writer-complete", harness="wr.c", entry="h_complete", defs=["LASTBIG=0"], unwind=6, backends=["cadical"], timeout=to,
                    claim="completion of the in-flight buffer with any n in [-1, len]: n == len releases it and launches the next head buffer in full; anything else marks the writer failed, fires the failure callback exactly once and sends nothing further", bounds="0..2 queued buffers", stubs=wst))
    obs.append(dict(name="writer-init-free", harness="wr.c", entry="h_free", defs=["LASTBIG=0"], unwind=6, backends=["cadical"], timeout=to, flags=["--memory-leak-check"],
                    claim="init gives an idle empty writer; free cancels the in-flight request once and releases every buffer (leak check)", bounds="same queue shapes", stubs=wst))
    return obs
TRUSTED = ["CBMC 6.11 C semantics", "cadical", "C06 for what network_read reports"]
ASSUMPTIONS = ["TLS variant (netbuf_ssl) outside the claim"]
EXPLANATION = ""
