/* C02: AES-NI key schedule and block encryption (real crypto_aes_aesni.c over the intrinsic models) == FIPS-197 */
#include <stdint.h>
#include <stdlib.h>
#include <string.h>
#include "vh.h"
#include "ref_aes.h"
#include "stub_warnp.c"
#include "crypto_aes_aesni.c"
#ifndef NK
#define NK 4
#endif
#define NR (NK + 6)

void h_keyexp(void)
{
	uint8_t key[4 * NK], w[16 * (NR + 1)], got[16];
	__m128i rk[NR + 1];
	for (int i = 0; i < 4 * NK; i++) key[i] = nd_u8();
#if NK == 4
	crypto_aes_key_expand_128_aesni(key, rk);
#else
	crypto_aes_key_expand_256_aesni(key, rk);
#endif
	ref_aes_keyexp(key, NK, w);
	for (int r = 0; r <= NR; r++) {
		_mm_storeu_si128((__m128i *)got, rk[r]);
		for (int j = 0; j < 16; j++) CHECK(got[j] == w[16 * r + j], "round key equals FIPS-197 KeyExpansion");
	}
	REACHED();
}

/* the aesenc / aesenclast models are the FIPS-197 round / final round (model lemma, no /repo code) */
void h_round_lemma(void)
{
	uint8_t s[16], rk[16], o[16];
	for (int i = 0; i < 16; i++) { s[i] = nd_u8(); rk[i] = nd_u8(); }
	int last = nd_bool();
	__m128i x = last ? _mm_aesenclast_si128(_mm_loadu_si128((const __m128i *)s), _mm_loadu_si128((const __m128i *)rk))
	    : _mm_aesenc_si128(_mm_loadu_si128((const __m128i *)s), _mm_loadu_si128((const __m128i *)rk));
	_mm_storeu_si128((__m128i *)o, x);
	ref_aes_round(s, rk, last);
	for (int i = 0; i < 16; i++) CHECK(o[i] == s[i], "AESENC/AESENCLAST model == FIPS-197 round");
	REACHED();
}

/* public API of the TU: expand + encrypt one block, separate or in-place buffers */
void h_block(void)
{
	uint8_t key[4 * NK], in[16], in0[16], out[16], want[16];
	for (int i = 0; i < 4 * NK; i++) key[i] = nd_u8();
	for (int i = 0; i < 16; i++) in0[i] = in[i] = nd_u8();
	void * k = crypto_aes_key_expand_aesni(key, 4 * NK);
	ASSUME(k != NULL);
	int inplace = nd_bool();
	if (inplace) crypto_aes_encrypt_block_aesni(in, in, k);
	else crypto_aes_encrypt_block_aesni(in, out, k);
	ref_aes_encrypt(key, NK, in0, want);
	for (int i = 0; i < 16; i++) CHECK((inplace ? in[i] : out[i]) == want[i], "ciphertext equals FIPS-197 AES");
	if (!inplace) for (int i = 0; i < 16; i++) CHECK(in[i] == in0[i], "input untouched");
	crypto_aes_key_free_aesni(k);
	REACHED();
}

/* encryption from ARBITRARY round keys (cut at the key schedule, which h_keyexp covers): real rounds == FIPS-197 Cipher on those keys */
void h_cipher(void)
{
	struct crypto_aes_key_aesni kk;
	uint8_t w[16 * (NR + 1)], in[16], out[16], s[16];
	vh_m128i rk[NR + 1];
	for (int i = 0; i < 16 * (NR + 1); i++) w[i] = nd_u8();
	for (int r = 0; r <= NR; r++) rk[r] = _mm_loadu_si128((const __m128i *)(w + 16 * r));
	kk.rkeys = rk; kk.nr = NR;
	for (int i = 0; i < 16; i++) in[i] = nd_u8();
	crypto_aes_encrypt_block_aesni(in, out, &kk);
	for (int i = 0; i < 16; i++) s[i] = in[i] ^ w[i];
	for (int r = 1; r < NR; r++) ref_aes_round(s, w + 16 * r, 0);
	ref_aes_round(s, w + 16 * NR, 1);
	for (int i = 0; i < 16; i++) CHECK(out[i] == s[i], "Cipher(in, w) of FIPS-197 5.1");
	REACHED();
}

/* key-expansion API: allocation, alignment of the round-key array, nr */
void h_expand_api(void)
{
	uint8_t key[32], got[16], w[240];
	for (int i = 0; i < 32; i++) key[i] = nd_u8();
	size_t len = nd_bool() ? 16 : 32;
	struct crypto_aes_key_aesni * k = crypto_aes_key_expand_aesni(key, len);
	ASSUME(k != NULL);
	CHECK(k->nr == (len == 16 ? 10 : 14), "nr = 10 for 128-bit keys, 14 for 256-bit keys");
	CHECK((uint8_t *)k->rkeys >= k->rkeys_buf && (uint8_t *)(k->rkeys + 15) <= k->rkeys_buf + sizeof(k->rkeys_buf), "round keys lie inside the key object");
	crypto_aes_key_free_aesni(k);
	REACHED();
}

/* round sequencing with the round primitives uninterpreted: AddRoundKey, nr-1 x aesenc with rk[1..nr-1] in order, aesenclast with rk[nr] */
static unsigned ncall; static int bad_order;
static vh_m128i cur;	/* value the next primitive must be applied to */
static const vh_m128i * RK;
static size_t NRr;
static int eq128(vh_m128i a, vh_m128i b) { return a.d[0] == b.d[0] && a.d[1] == b.d[1] && a.d[2] == b.d[2] && a.d[3] == b.d[3]; }
static vh_m128i fresh(void) { vh_m128i r; for (int i = 0; i < 4; i++) r.d[i] = nd_u32(); return r; }
vh_m128i uf_aesenc(vh_m128i a, vh_m128i k)
{
	ncall++;
	if (!(ncall < NRr && eq128(a, cur) && eq128(k, RK[ncall]))) bad_order = 1;
	cur = fresh();
	return cur;
}
vh_m128i uf_aesenclast(vh_m128i a, vh_m128i k)
{
	ncall++;
	if (!(ncall == NRr && eq128(a, cur) && eq128(k, RK[NRr]))) bad_order = 1;
	cur = fresh();
	return cur;
}
void h_rounds(void)
{
	struct crypto_aes_key_aesni kk;
	vh_m128i rk[15];
	for (int i = 0; i < 15; i++) rk[i] = fresh();
	kk.rkeys = rk;
	kk.nr = nd_bool() ? 10 : 14;
	RK = rk; NRr = kk.nr;
	vh_m128i in = fresh();
	cur = vhm_mm_xor_si128(in, rk[0]);
	vh_m128i out = crypto_aes_encrypt_block_aesni_m128i(in, &kk);
	CHECK(!bad_order, "AddRoundKey(rk[0]); aesenc with rk[1..nr-1] in order, each applied to the previous result; aesenclast with rk[nr]");
	CHECK(ncall == NRr, "exactly nr round primitives");
	CHECK(eq128(out, cur), "result of the final round is returned");
	REACHED();
}
