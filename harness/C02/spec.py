MZ = ["util/insecure_memzero.c"]
AESNI = ["X86_AESNI"]

def obligations(tier):
    T = tier == "thorough"
    obs = []
    to = 2400 if T else 280
    for nk in (4, 8):
        obs.append(dict(name="aesni-keyexp-%d" % (nk * 32), harness="aes.c", entry="h_keyexp", defs=["NK=%d" % nk], cpu=AESNI, model_inc=["x86"], srcs=MZ,
                        unwind=300, backends=["cadical", "kissat"], timeout=to,
                        claim="crypto_aes_key_expand_%d_aesni == FIPS-197 5.2 KeyExpansion for every key" % (nk * 32), bounds="none",
                        stubs=["x86 intrinsics -> models/x86/vh_x86.h (validated against this CPU on every run)"]))
        if nk == 4 or T: obs.append(dict(name="aesni-cipher-%d" % (nk * 32), harness="aes.c", entry="h_cipher", defs=["NK=%d" % nk], cpu=AESNI, model_inc=["x86"], srcs=MZ,
                        unwind=300, backends=["cadical", "kissat"], timeout=max(to, 420),
                        claim="crypto_aes_encrypt_block_aesni from ARBITRARY round keys == FIPS-197 5.1 Cipher on those keys (nr=%d), for every block" % (nk + 6), bounds="none",
                        stubs=["x86 intrinsics -> models/x86/vh_x86.h"]))
        # a monolithic keyexp+cipher miter (h_block in aes.c) did not finish in 2400 s on cadical/kissat (thorough run 2); the two halves above compose to it
    obs.append(dict(name="aesenc-model-is-fips197-round", harness="aes.c", entry="h_round_lemma", cpu=AESNI, model_inc=["x86"], srcs=MZ, unwind=300, timeout=to,
                    claim="AESENC/AESENCLAST models == FIPS-197 SubBytes,ShiftRows,[MixColumns],AddRoundKey on a symbolic state and round key", bounds="none"))
    obs.append(dict(name="aesni-round-sequencing", harness="aes.c", entry="h_rounds", cpu=AESNI, model_inc=["x86"], srcs=MZ, unwind=300, timeout=to,
                    replace=["vhm_mm_aesenc_si128:uf_aesenc", "vhm_mm_aesenclast_si128:uf_aesenclast"],
                    claim="crypto_aes_encrypt_block_aesni_m128i, round primitives uninterpreted: for nr in {10,14} and arbitrary round keys the call sequence is AddRoundKey(rk0), aesenc(rk1..rk[nr-1]) chained in order, aesenclast(rk[nr])", bounds="none",
                    stubs=["aesenc/aesenclast -> logging uninterpreted functions"]))
    obs.append(dict(name="aes-portable-dispatch", harness="dispatch.c", entry="h_dispatch", cpu=[], srcs=MZ, unwind=300, unwindset=["insecure_memzero_func.0:400"], timeout=to,
                    claim="portable crypto_aes_key_expand / crypto_aes_encrypt_block forward exactly to OpenSSL AES_set_encrypt_key / AES_encrypt; NULL iff OpenSSL refuses", bounds="none; OpenSSL's AES itself is outside /repo and not encoded",
                    stubs=["AES_set_encrypt_key / AES_encrypt -> logging stubs"]))
    ml = 70 if T else 40
    for path, nm, cpu, srcs in ((0, "portable", [], MZ), (1, "aesni", AESNI, MZ)):
        ents = [("h_stream_step", "stream-step", "inductive step of the stream call from an arbitrary invariant state with symbolic 64-bit byte counter: out[i] = in[i]^E(nonce||BE64(blockindex))[pos], one E call per new block, counter/cache invariant re-established, in-place allowed, nothing outside [0,buflen) written")]
        if path == 0:
            ents += [("h_init2", "init2", "crypto_aesctr_init2 establishes the invariant; NULL key keeps the old key; keystream restarts"),
                     ("h_buf", "buf", "crypto_aesctr_buf == keystream XOR from block 0")]
        for ent, en, what in ents:
            obs.append(dict(name="aesctr-%s-%s" % (nm, en), harness="ctr.c", entry=ent, defs=["PATH=%d" % path, "MAXLEN=%d" % ml], cpu=cpu, model_inc=["x86"], srcs=srcs,
                            unwind=ml + 12, unwindset=["insecure_memzero_func.0:400", "libcperciva_crypto_aesctr_stream#0?:%d" % (ml // 16 + 2),
                                                        "crypto_aesctr_stream_cipherblock_use#0:18", "crypto_aesctr_aesni_stream_wholeblocks#0?:%d" % (ml // 16 + 2)],
                            backends=["cadical"], timeout=to, claim=what,
                            bounds="buflen <= %d per call, bytectr + buflen < 2^64 - 32; block cipher uninterpreted (any E)" % ml,
                            stubs=["crypto_aes_encrypt_block / crypto_aes_encrypt_block_aesni_m128i -> uninterpreted E, consistent on the observed blocks", "x86 intrinsics -> models/x86/vh_x86.h"]))
    return obs

SELFTESTS = [dict(name="x86-models-vs-hardware", srcs=["/verif/models/x86/selftest_x86.c"], cflags=["-msse4.2", "-mssse3", "-maes", "-msha", "-iquote", "/verif/models/x86"],
                  what="every intrinsic model in models/x86/vh_x86.h equals the real instruction on this CPU for 200000 operand sets"),
             dict(name="ref-aes-vs-openssl", srcs=["/verif/refs/selftest_aes.c"], libs=["-lcrypto"], what="refs/ref_aes.h == OpenSSL AES on 40000 random (key, block) pairs, FIPS-197 C.1 vector, S-box regenerated from its definition")]
TRUSTED = ["CBMC 6.11 C semantics", "cadical/kissat/z3", "models/x86/vh_x86.h (intrinsic models, differential-tested against the CPU every run)", "refs/ref_aes.h (FIPS-197 reference, validated against OpenSSL every run)"]
ASSUMPTIONS = ["OpenSSL's AES_encrypt/AES_set_encrypt_key (the software path, machine code outside /repo) is not encoded; only the dispatch to it is"]
EXPLANATION = ""
