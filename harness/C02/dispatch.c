/* C02: portable path of crypto_aes.c = dispatch to OpenSSL's AES (machine code outside /repo, NOT encoded): only the forwarding is checked */
#include <stdint.h>
#include <stdlib.h>
#include <string.h>
#include "vh.h"
#include "stub_warnp.c"
#include "crypto_aes.c"
static int set_calls, enc_calls, set_rc;
static const unsigned char * set_key; static int set_bits; static AES_KEY * set_kexp;
static const unsigned char * enc_in; static unsigned char * enc_out; static const AES_KEY * enc_key;
int AES_set_encrypt_key(const unsigned char * k, const int bits, AES_KEY * key)
{
	set_calls++; set_key = k; set_bits = bits; set_kexp = key;
	for (size_t i = 0; i < sizeof(AES_KEY); i++) ((uint8_t *)key)[i] = nd_u8();
	return set_rc;
}
void AES_encrypt(const unsigned char * in, unsigned char * out, const AES_KEY * key) { enc_calls++; enc_in = in; enc_out = out; enc_key = key; }
void h_dispatch(void)
{
	uint8_t key[32], in[16], out[16];
	size_t len = nd_bool() ? 16 : 32;
	set_rc = nd_bool() ? 0 : -1;
	for (int i = 0; i < 32; i++) key[i] = nd_u8();
	struct crypto_aes_key * k = crypto_aes_key_expand(key, len);
	CHECK(set_calls == 1 && set_key == key && set_bits == (int)(len * 8), "OpenSSL key setup called once with the key and its bit length");
	CHECK((k == NULL) == (set_rc != 0), "NULL exactly when OpenSSL refuses the key (allocation assumed to succeed)");
	if (k != NULL) {
		CHECK((void *)k == (void *)set_kexp, "the expanded key is the object OpenSSL filled in");
		crypto_aes_encrypt_block(in, out, k);
		CHECK(enc_calls == 1 && enc_in == in && enc_out == out && (const void *)enc_key == (const void *)k, "block encryption forwarded unchanged to AES_encrypt");
		crypto_aes_key_free(k);
	}
	REACHED();
}
