/*
 * C02/C03: AES-CTR stream over an UNINTERPRETED block cipher E (functionally consistent on the two blocks
 * the harness observes).  Inductive step from an arbitrary stream state satisfying the invariant
 *   I: pblk[0..8) = BE64(nonce); B = ceil(bytectr/16) blocks generated so far;
 *      B > 0 => pblk[8..16) = BE64(B-1);  B = 0 => pblk[15] = 0xff;  bytectr%16 != 0 => buf = E(pblk)
 * with a fully symbolic 64-bit bytectr (so every counter-byte carry is inside the query).
 * PATH: 0 = portable crypto_aesctr_stream (no CPUSUPPORT), 1 = crypto_aesctr_aesni_stream,
 *       2 = crypto_aesctr_stream in an AESNI build with the hwaccel selector symbolic (C03).
 */
#include <stdint.h>
#include <stdlib.h>
#include <string.h>
#include "vh.h"
#include "stub_warnp.c"
#if PATH == 1
#include "crypto_aesctr_aesni.c"
#define STREAM crypto_aesctr_aesni_stream
#else
#include "crypto_aesctr.c"
#define STREAM crypto_aesctr_stream
#endif
#ifndef MAXLEN
#define MAXLEN 40
#endif

static const void * KEY;
static uint8_t star_blk[16], star_out[16], last_blk[16], last_out[16];
static int star_seen, last_seen, have_last;
static size_t ecalls;
static int eq16(const uint8_t * a, const uint8_t * b) { int e = 1; for (int i = 0; i < 16; i++) e &= (a[i] == b[i]); return e; }
static void E(const uint8_t * in, uint8_t * out, const void * key)
{
	uint8_t o[16];
	CHECK(key == KEY, "block cipher keyed with the stream's key");
	for (int i = 0; i < 16; i++) o[i] = nd_u8();
	if (eq16(in, star_blk)) { if (star_seen) memcpy(o, star_out, 16); else { memcpy(star_out, o, 16); star_seen = 1; } }
	if (have_last && eq16(in, last_blk)) { if (last_seen) memcpy(o, last_out, 16); else { memcpy(last_out, o, 16); last_seen = 1; } }
	ecalls++;
	memcpy(out, o, 16);
}
void crypto_aes_encrypt_block(const uint8_t in[16], uint8_t out[16], const struct crypto_aes_key * key) { E(in, out, key); }
#if PATH >= 1
#include <emmintrin.h>
__m128i crypto_aes_encrypt_block_aesni_m128i(__m128i in, const void * key)
{
	uint8_t a[16], b[16];
	_mm_storeu_si128((__m128i *)a, in);
	E(a, b, key);
	return _mm_loadu_si128((const __m128i *)b);
}
#endif
#if PATH == 2
int crypto_aes_can_use_intrinsics(void) { return nd_bool(); }
#endif

static void be64(uint8_t * p, uint64_t x) { for (int i = 0; i < 8; i++) p[i] = (uint8_t)(x >> (8 * (7 - i))); }

void h_stream_step(void)
{
	struct crypto_aesctr st;
	static int keyobj;
	uint8_t inb[MAXLEN + 8], in0[MAXLEN + 8], outb[MAXLEN + 8], out0[MAXLEN + 8], buf0[16], nb[8];
	uint64_t nonce = nd_u64(), c0 = nd_u64();
	size_t len = nd_size_le(MAXLEN), istar = nd_size();
	int inplace = nd_bool();
	ASSUME(c0 <= UINT64_MAX - MAXLEN - 32);	/* outside the claim: streams of 2^64 bytes */
	KEY = &keyobj;
	st.key = KEY; st.bytectr = c0;
	uint64_t B0 = (c0 + 15) / 16, c1 = c0 + len, B1 = (c1 + 15) / 16;
	be64(nb, nonce);
	memcpy(st.pblk, nb, 8);
	for (int i = 8; i < 16; i++) st.pblk[i] = nd_u8();
	if (B0 > 0) be64(st.pblk + 8, B0 - 1); else st.pblk[15] = 0xff;
	for (int i = 0; i < 16; i++) buf0[i] = st.buf[i] = nd_u8();
	for (size_t i = 0; i < MAXLEN + 8; i++) { in0[i] = inb[i] = nd_u8(); out0[i] = outb[i] = nd_u8(); }
#if PATH == 2
	hwaccel = nd_bool() ? HW_X86_AESNI : HW_SOFTWARE;
#endif
	/* observation A: keystream block of byte istar;  observation B: the last block touched */
	ASSUME(istar < len);
	memcpy(star_blk, nb, 8); be64(star_blk + 8, (c0 + istar) / 16);
	if (c0 % 16 != 0 && (c0 + istar) / 16 == B0 - 1) { star_seen = 1; memcpy(star_out, buf0, 16); }
	have_last = B1 > 0;
	memcpy(last_blk, nb, 8); be64(last_blk + 8, B1 - 1);
	if (c0 % 16 != 0 && B1 == B0) { last_seen = 1; memcpy(last_out, buf0, 16); }

	STREAM(&st, inb, inplace ? inb : outb, len);

	uint8_t * res = inplace ? inb : outb;
	CHECK(star_seen, "the keystream block for byte i was produced by E on nonce||BE64(blockindex)");
	CHECK(res[istar] == (uint8_t)(in0[istar] ^ star_out[(c0 + istar) % 16]), "out[i] = in[i] ^ E(nonce_be64 || blockindex_be64)[pos mod 16]");
	CHECK(ecalls == B1 - B0, "one block-cipher call per new keystream block");
	CHECK(st.bytectr == c1, "byte counter advanced by buflen");
	CHECK(st.key == KEY, "key retained");
	for (int i = 0; i < 8; i++) CHECK(st.pblk[i] == nb[i], "nonce part of the counter block unchanged");
	if (B1 > 0) { uint8_t e[8]; be64(e, B1 - 1); for (int i = 0; i < 8; i++) CHECK(st.pblk[8 + i] == e[i], "counter part = BE64(index of last generated block)"); }
	else CHECK(st.pblk[15] == 0xff, "fresh stream untouched");
	if (c1 % 16 != 0) { CHECK(last_seen, "cached keystream block is E of the current counter block"); for (int i = 0; i < 16; i++) CHECK(st.buf[i] == last_out[i], "cached keystream block"); }
	size_t t = nd_size(); ASSUME(t >= len && t < MAXLEN + 8);
	CHECK(res[t] == (inplace ? in0[t] : out0[t]), "nothing written beyond buflen");
	if (!inplace) { size_t u = nd_size(); ASSUME(u < MAXLEN + 8); CHECK(inb[u] == in0[u], "input buffer untouched"); }
	REACHED();
}

#if PATH != 1
/* init2 establishes the invariant (new key, or key == NULL keeps the old one); re-initialisation restarts the keystream */
void h_init2(void)
{
	struct crypto_aesctr st;
	static int k1, k2;
	uint64_t nonce = nd_u64();
	uint8_t nb[8];
	st.key = (const void *)&k1; st.bytectr = nd_u64();
	for (int i = 0; i < 16; i++) { st.pblk[i] = nd_u8(); st.buf[i] = nd_u8(); }
	int newkey = nd_bool();
	crypto_aesctr_init2(&st, newkey ? (const void *)&k2 : NULL, nonce);
	be64(nb, nonce);
	CHECK(st.key == (newkey ? (const void *)&k2 : (const void *)&k1), "new key adopted / NULL keeps the previous key");
	CHECK(st.bytectr == 0, "keystream restarts at byte 0");
	for (int i = 0; i < 8; i++) CHECK(st.pblk[i] == nb[i], "nonce stored big-endian");
	CHECK(st.pblk[15] == 0xff, "invariant for B = 0");
	REACHED();
}

/* one-shot crypto_aesctr_buf from scratch */
void h_buf(void)
{
	static int keyobj;
	uint8_t inb[MAXLEN], outb[MAXLEN + 8], out0[MAXLEN + 8], nb[8];
	uint64_t nonce = nd_u64();
	size_t len = nd_size_le(MAXLEN), istar = nd_size();
	KEY = &keyobj;
	for (size_t i = 0; i < MAXLEN; i++) inb[i] = nd_u8();
	for (size_t i = 0; i < MAXLEN + 8; i++) out0[i] = outb[i] = nd_u8();
	ASSUME(istar < len);
	be64(nb, nonce);
	memcpy(star_blk, nb, 8); be64(star_blk + 8, istar / 16);
#if PATH == 2
	hwaccel = nd_bool() ? HW_X86_AESNI : HW_UNSET;
#endif
	crypto_aesctr_buf(KEY, nonce, inb, outb, len);
	CHECK(star_seen, "keystream block produced by E");
	CHECK(outb[istar] == (uint8_t)(inb[istar] ^ star_out[istar % 16]), "out[i] = in[i] ^ E(nonce || BE64(i/16))[i mod 16]");
	CHECK(ecalls == (len + 15) / 16, "blocks generated");
	size_t t = nd_size(); ASSUME(t >= len && t < MAXLEN + 8);
	CHECK(outb[t] == out0[t], "nothing written beyond buflen");
	REACHED();
}
#endif
