/*
 * C09 (API helper): http_findheader returns the value of the FIRST header whose name equals the key (exact,
 * case-sensitive comparison, as documented), NULL if there is none; nheaders == 0 with a NULL array is allowed.
 * Names and the key are arbitrary strings of 0..2 characters in exact-size objects.
 */
#include <stdint.h>
#include <stdio.h>
#include <stdlib.h>
#include <string.h>
#include "vh.h"
#include "stub_warnp.c"
struct sock_addr; struct http_request; struct http_response;
void * stub_request2(struct sock_addr * const *, struct http_request *, size_t, int (*)(void *, struct http_response *), void *, char *);
#include "http.c"
#define NHMAX 3
static char * mkstr(size_t n) { char * s = malloc(n + 1); ASSUME(s != NULL); for (size_t i = 0; i < 2; i++) if (i < n) { s[i] = (char)nd_u8(); ASSUME(s[i] != 0); } s[n] = 0; return s; }
static size_t len2(void) { return nd_bool() ? (nd_bool() ? 2 : 1) : 0; }
static int same(const char * a, size_t la, const char * b, size_t lb) { if (la != lb) return 0; for (size_t i = 0; i < 2; i++) if (i < la && a[i] != b[i]) return 0; return 1; }
void h_findheader(void)
{
	size_t nh = nd_size_le(NHMAX), kl = len2(), nl[NHMAX];
	char * key = mkstr(kl); static char V0, V1, V2; char * vals[NHMAX] = { &V0, &V1, &V2 };
	struct http_header * hs = nh ? malloc(nh * sizeof(*hs)) : NULL; ASSUME(nh == 0 || hs != NULL);
	for (size_t i = 0; i < NHMAX; i++) if (i < nh) { nl[i] = len2(); hs[i].header = mkstr(nl[i]); hs[i].value = vals[i]; }
	const char * r = http_findheader(hs, nh, key);
	const char * want = NULL;
	for (size_t i = NHMAX; i-- > 0;) if (i < nh && same(hs[i].header, nl[i], key, kl)) want = vals[i];
	CHECK(r == want, "value of the first header whose name equals the key, NULL if none");
	REACHED();
}

/* http_request == http_request2 with no TLS host name: every argument forwarded unchanged, result passed back */
static struct sock_addr * const * f_addrs; static struct http_request * f_req; static size_t f_max; static int (*f_cb)(void *, struct http_response *); static void * f_ck; static char * f_host; static int f_calls; static char FTOK;
void * stub_request2(struct sock_addr * const * a, struct http_request * r, size_t m, int (*cb)(void *, struct http_response *), void * c, char * h)
{ f_calls++; f_addrs = a; f_req = r; f_max = m; f_cb = cb; f_ck = c; f_host = h; return nd_bool() ? &FTOK : NULL; }
static int ucb2(void * c, struct http_response * r) { (void)c; (void)r; return 0; }
void h_http_request(void)
{
	static struct sock_addr * AD[1]; static struct http_request RQ; static char CK;
	size_t m = nd_size();
	void * r = http_request(AD, &RQ, m, ucb2, &CK);
	CHECK(f_calls == 1 && f_addrs == AD && f_req == &RQ && f_max == m && f_cb == ucb2 && f_ck == &CK && f_host == NULL, "arguments forwarded unchanged, no TLS host");
	CHECK(r == NULL || r == &FTOK, "result passed back");
	REACHED();
}
