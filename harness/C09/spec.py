import importlib.util, os
def obligations(tier):
    T = tier == "thorough"
    to = 2400 if T else 280
    obs = []
    REPP = ["callback_chunkedheader:stub_chunkhdr", "get_body_gotclen:stub_gotclen", "callback_read_toeof:stub_toeof", "callback_read_header:stub_readheader", "findeol:stub_findeol"]
    SHAPES = [("status13", [13]), ("status13-h4", [13, 4]), ("status13-clen17", [13, 17])]	# the Content-Length shape costs ~490 s on an idle machine (kissat) and is in the quick tier because it is the commonest framing
    # the two three-line shapes with both Transfer-Encoding and Content-Length (either order) did not finish in 2400 s on cadical/kissat (thorough run 3): the chunked-over-Content-Length priority is decided only by the C08 memory-safety shapes' framing CHECKs, not here
    if T: SHAPES += [("status15-h3-h6", [15, 3, 6]), ("status13-te26", [13, 26]), ("status13-h5-h5-h5", [13, 5, 5, 5]), ("status20-clen19", [20, 19])]
    for nm_, sh in SHAPES:
        n = sum(sh) + 2 * len(sh) + 2
        obs.append(dict(name="header-decode-exact-" + nm_, harness="../C08/hdr.c", entry="h_header", defs=["N=%d" % n, "EXTRA=2", "EXACT", "SHAPE={%s-1}" % "".join("%d," % x for x in sh)], replace=REPP, unwind=max(n + 8, 20), backends=["cadical", "kissat"], timeout=max(to, 900),
                        claim="for every WELL-FORMED header block with line lengths %s (status line HTTP/1.x SP 3DIGIT SP reason; fields name ':' OWS value OWS): the response is accepted, status, number of fields, every field name and OWS-trimmed value (in order) equal an independent reference parse, and the framing decision follows HEAD/204/304 > Transfer-Encoding: chunked > Content-Length > read-to-EOF; 1xx blocks are discarded and the scan restarts" % sh,
                        bounds="line lengths %s (%d bytes), all byte values subject to well-formedness" % (sh, n), stubs=["findeol -> fixed line structure", "sscanf/strcspn/strspn/strstr -> C models validated against glibc", "body stages -> recording stubs"]))
    # scan stage and body stages contribute the segmentation / body-exactness parts
    for n in ([0, 3, 4, 5, 8, 11] if not T else list(range(0, 15))):
        obs.append(dict(name="header-scan-stage-n%d" % n, harness="../C08/hdr.c", entry="h_scan", defs=["NSCAN=%d" % n], replace=["gotheaders:stub_gotheaders"], unwind=n + 8, backends=["cadical"], timeout=to,
                        claim="whatever the segmentation (any number of buffered bytes, any valid scan position): the block up to the FIRST blank line is handed to the parser, never less, never more", bounds="%d buffered bytes" % n, stubs=["gotheaders -> recording stub"]))
    nm = 9 if T else 6
    BC = dict(harness="../C08/body.c", unwind=40, unwindset=["findeol#0:%d" % (nm + 2), "vhs_scan#0:%d" % (nm + 3), "vhs_scan#1:%d" % (nm + 3)], backends=["cadical"], timeout=to,
              stubs=["netbuf_read_peek -> exact-size object", "strtoumax -> C11 model", "successor callbacks -> hand-over stubs"], bounds="<= %d buffered bytes, body so far <= 8 bytes, limits symbolic" % nm)
    obs.append(dict(name="body-data-exact", entry="h_readdata_exact", defs=["NMAX=%d" % nm, "EXACT"], replace=["callback_chunkedheader:stub_chunkhdr"],
                    claim="callback_readdata: exactly min(buffered, remaining) bytes are appended to the body in order; Content-Length body complete => callback with exactly those bytes; chunk complete => CRLF stripped and the next chunk-size line is read; otherwise the remainder is awaited", **BC))
    obs.append(dict(name="chunk-size-line-exact", entry="h_chunkhdr_exact", defs=["NMAX=%d" % nm, "EXACT"], replace=["callback_readdata:stub_readdata"],
                    claim="callback_chunkedheader on a well-formed chunk-size line (1-2 hex digits, optional extension, CRLF): size 0 ends the body; otherwise exactly size+2 bytes are requested and exactly the line is consumed (extensions ignored)", **BC))
    REQ = [("get-1hdr-body2", dict(LM=3, LP=1, NH=1, LN0=1, LV0=1, LN1=1, LV1=0, LB=2)), ("head-0hdr-nobody", dict(LM=4, LP=2, NH=0, LN0=1, LV0=1, LN1=1, LV1=0, LB=0)),
           ("post-2hdr-body3", dict(LM=4, LP=3, NH=2, LN0=2, LV0=0, LN1=3, LV1=2, LB=3)), ("m0-p0", dict(LM=0, LP=0, NH=1, LN0=0, LV0=0, LN1=1, LV1=0, LB=1))]
    for nm_, d in REQ:
        obs.append(dict(name="request-bytes-" + nm_, harness="req.c", entry="h_request", defs=["%s=%d" % kv for kv in d.items()], replace=["callback_read_header:stub_readheader"], unwind=270, backends=["cadical"], timeout=to, replay="model",
                        claim="http_request2 + callback_connected: the bytes handed to the writer are exactly method SP path SP HTTP/1.1 CRLF (name: value CRLF)* CRLF and then the body; HEAD is recognised", bounds="string lengths %s (contents symbolic, all byte values)" % d,
                        stubs=["network_connect/netbuf_* -> recording models", "strlen/stpcpy/strcmp -> length from object size", "callback_read_header -> stub"]))
    obs.append(dict(name="findheader-first-exact-match", harness="find.c", entry="h_findheader", unwind=8, unwindset=["strcmp.0:5"], backends=["cadical"], timeout=to,
                    claim="http_findheader: value of the first header whose name equals the key exactly, NULL if none (also for an empty list with a NULL array)", bounds="<= 3 headers, names and key of 0..2 characters", stubs=["strcmp: CBMC model"]))
    obs.append(dict(name="http-request-forwards", harness="find.c", entry="h_http_request", replace=["http_request2:stub_request2"], unwind=8, backends=["cadical"], timeout=to,
                    claim="http_request forwards every argument unchanged to http_request2 with no TLS host name and passes the result back", bounds="none", stubs=["http_request2 -> recording stub (own obligations: request-bytes-*)"]))
    return obs
SELFTESTS = [dict(name="str-models-vs-glibc", srcs=["/verif/models/selftest_str.c"], cflags=["-I/verif/models"], what="strcspn/strspn/strstr/stpcpy/sscanf(HTTP status line) models equal glibc on 2,000,000 strings")]
TRUSTED = ["CBMC 6.11 C semantics", "cadical", "the reference header parser in harness/C08/hdr.c (ref_parse)", "C models of sscanf/strcspn/strspn/strstr"]
ASSUMPTIONS = ["body decoding exactness (chunk data/extensions, Content-Length bodies, read-to-EOF) and the request serialisation have obligations only as far as listed in evidence; whole responses are not run end to end (stages are cut at the hand-overs)"]
EXPLANATION = ""
