/*
 * C09 (request side): http_request2 + callback_connected of http/http.c: the bytes handed to the buffered writer are
 * exactly  method SP path SP "HTTP/1.1" CRLF (name ": " value CRLF)* CRLF  followed by the body (if any).
 * String lengths are constants per obligation (each string lives in an object of 100+len bytes and strlen/stpcpy take
 * the length from the object size: lengths found by scanning symbolic content make the header allocation
 * symbolic-size); contents are symbolic.
 */
#include <ctype.h>
#include <errno.h>
#include <inttypes.h>
#include <stddef.h>
#include <stdint.h>
#include <stdio.h>
#include <stdlib.h>
#include <string.h>
#include "vh.h"
#include "stub_warnp.c"
#include "libc_strto.c"
#include "libc_str.c"
static size_t vh_len(const char * p)
{
#ifdef VH_CBMC
	size_t sz = __CPROVER_OBJECT_SIZE(p);
#else
	size_t sz = 0; (void)p;
#endif
	return sz >= 100 ? sz - 100 : sz - 1;	/* caller strings: 100+len; literals: exact size */
}
static char * vh_stpcpy2(char * d, const char * s) { size_t l = vh_len(s); for (size_t i = 0; i < l; i++) d[i] = s[i]; d[l] = 0; return d + l; }
static int vh_strcmp2(const char * a, const char * b) { size_t la = vh_len(a), lb = vh_len(b); for (size_t i = 0; i < la && i < lb; i++) if (a[i] != b[i]) return (unsigned char)a[i] - (unsigned char)b[i]; return (int)la - (int)lb; }
#undef isspace
#define isspace(c) vhs_space((unsigned char)(c))
#undef isxdigit
#define isxdigit(c) (vhs_digit((unsigned char)(c)) < 16)
#define strtoumax vh_strtoumax
#define strtoimax vh_strtoimax
#define strcspn vh_strcspn
#define strspn vh_strspn
#define strstr vh_strstr
#define stpcpy vh_stpcpy2
#define strlen vh_len
#define strcmp vh_strcmp2
#define sscanf(s, fmt, a, b, c) vh_sscanf_http(s, a, b, c)
struct http_cookie;
int stub_readheader(void *, int);
#include "http.c"
#undef strlen
#undef strcmp
#ifndef LM
#define LM 3
#define LP 1
#define NH 1
#define LN0 1
#define LV0 1
#define LN1 1
#define LV1 0
#define LB 2
#endif
static char M[100 + LM], P[100 + LP], HN0[100 + LN0], HV0[100 + LV0], HN1[100 + LN1], HV1[100 + LV1];
static uint8_t BODY[LB + 1];
static int conn_calls; static int (*conn_cb)(void *, int); static void * conn_ck; static char TOKC, TOKR, TOKW;
void * network_connect(struct sock_addr * const * sas, int (*cb)(void *, int), void * c) { (void)sas; conn_calls++; conn_cb = cb; conn_ck = c; return &TOKC; }
void network_connect_cancel(void * c) { (void)c; }
struct netbuf_read * netbuf_read_init(int s) { (void)s; return (struct netbuf_read *)&TOKR; }
struct netbuf_write * netbuf_write_init(int s, int (*f)(void *), void * c) { (void)s; (void)f; (void)c; return (struct netbuf_write *)&TOKW; }
static int nw; static const uint8_t * w_buf[3]; static size_t w_len[3];
int netbuf_write_write(struct netbuf_write * W, const uint8_t * b, size_t n) { (void)W; if (nw < 3) { w_buf[nw] = b; w_len[nw] = n; } nw++; return 0; }
void netbuf_read_peek(struct netbuf_read * R, uint8_t ** d, size_t * n) { (void)R; *d = NULL; *n = 0; }
void netbuf_read_consume(struct netbuf_read * R, size_t n) { (void)R; (void)n; }
int netbuf_read_wait(struct netbuf_read * R, size_t len, int (*cb)(void *, int), void * c) { (void)R; (void)len; (void)cb; (void)c; return 0; }
void netbuf_read_wait_cancel(struct netbuf_read * R) { (void)R; } void netbuf_read_free(struct netbuf_read * R) { (void)R; } void netbuf_write_free(struct netbuf_write * W) { (void)W; }
int close(int fd) { (void)fd; return 0; }
static int rh_calls; static int rh_ishead;
int stub_readheader(void * c, int st) { struct http_cookie * H = c; (void)st; rh_calls++; rh_ishead = H->req_ishead; return 0; }
static int ucb(void * c, struct http_response * r) { (void)c; (void)r; return 0; }
static void fill(char * s, size_t n) { for (size_t i = 0; i < n; i++) { uint8_t c = nd_u8(); s[i] = (char)c; } s[n] = 0; }
void h_request(void)
{
	struct http_request rq; struct http_header hd[2];
	fill(M, LM); fill(P, LP); fill(HN0, LN0); fill(HV0, LV0); fill(HN1, LN1); fill(HV1, LV1);
	for (size_t i = 0; i < LB; i++) BODY[i] = nd_u8();
	hd[0].header = HN0; hd[0].value = HV0; hd[1].header = HN1; hd[1].value = HV1;
	rq.method = M; rq.path = P; rq.nheaders = NH; rq.headers = hd; rq.bodylen = LB; rq.body = LB ? BODY : NULL;
	void * ck = http_request2(NULL, &rq, nd_size(), ucb, NULL, NULL);
	ASSUME(ck != NULL);
	CHECK(conn_calls == 1 && conn_cb == callback_connected && conn_ck == ck, "one connection attempt, routed back to this request");
	(void)callback_connected(ck, 5);
	/* expected request head */
	uint8_t E[256]; size_t n = 0;
#define PUT(s, l) for (size_t i_ = 0; i_ < (l); i_++) E[n++] = (uint8_t)(s)[i_]
	PUT(M, LM); PUT(" ", 1); PUT(P, LP); PUT(" HTTP/1.1\r\n", 11);
	if (NH >= 1) { PUT(HN0, LN0); PUT(": ", 2); PUT(HV0, LV0); PUT("\r\n", 2); }
	if (NH >= 2) { PUT(HN1, LN1); PUT(": ", 2); PUT(HV1, LV1); PUT("\r\n", 2); }
	PUT("\r\n", 2);
	CHECK(nw == (LB > 0 ? 2 : 1), "the head, then the body if there is one");
	CHECK(w_len[0] == n, "request head length = method SP path SP HTTP/1.1 CRLF (name: value CRLF)* CRLF");
	size_t i = nd_size(); ASSUME(i < n);
	CHECK(w_buf[0][i] == E[i], "request head bytes, verbatim and in order");
	if (LB > 0) { CHECK(w_buf[1] == BODY && w_len[1] == LB, "the given body, verbatim"); }
	CHECK(rh_calls == 1, "then the response is awaited");
	int head = (LM == 4 && M[0] == 'H' && M[1] == 'E' && M[2] == 'A' && M[3] == 'D');
	CHECK(rh_ishead == head, "HEAD requests are remembered (their responses carry no body)");
	REACHED();
}
