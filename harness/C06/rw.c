/*
 * C06 (read/write part): network_read.c / network_write.c -- inductive step of the readiness callback from an
 * ARBITRARY in-flight request, with an arbitrary kernel answer (any partial length, EAGAIN, EWOULDBLOCK, EINTR, EOF,
 * hard error), plus start and cancel.  The event layer is a one-slot registry that treats double registration as a
 * violation and may itself refuse a registration; request cookies come from a tracked pool.
 */
#include <sys/socket.h>
#include <errno.h>
#include <stdint.h>
#include <stdlib.h>
#include <string.h>
#include "vh.h"
#include "stub_warnp.c"
#ifdef WRITE
#include "network_write.c"
#define COOKIE struct network_write_cookie
#define START network_write
#define CANCEL network_write_cancel
#define OP EVENTS_NETWORK_OP_WRITE
#else
#include "network_read.c"
#define COOKIE struct network_read_cookie
#define START network_read
#define CANCEL network_read_cancel
#define OP EVENTS_NETWORK_OP_READ
#endif
#ifndef MAXB
#define MAXB 8
#endif
/* ---- event layer model ---- */
static int (*reg_func)(void *); static void * reg_cookie; static int reg_fd = -1, reg_op, reg_count, reg_bad, reg_refuse, cancel_count;
int events_network_register(int (*f)(void *), void * c, int s, int op)
{
	if (reg_refuse) return -1;
	if (reg_func != NULL) reg_bad = 1;	/* double registration on the descriptor */
	reg_func = f; reg_cookie = c; reg_fd = s; reg_op = op; reg_count++;
	return 0;
}
int events_network_cancel(int s, int op) { cancel_count++; if (reg_func == NULL || s != reg_fd || op != reg_op) { reg_bad = 1; return -1; } reg_func = NULL; return 0; }
/* ---- request cookie pool ---- */
static COOKIE CP[2]; static int CLIVE[2], pool_bad;
COOKIE * vh_cookie_malloc(void) { for (int i = 0; i < 2; i++) if (!CLIVE[i]) { CLIVE[i] = 1; return &CP[i]; } return NULL; }
void vh_cookie_free(COOKIE * c) { int i = (int)(c - CP); if (i < 0 || i > 1 || !CLIVE[i]) pool_bad = 1; else CLIVE[i] = 0; }
/* ---- kernel model ---- */
static uint8_t PEER[MAXB];	/* read: the peer's byte stream; write: what the socket received */
static int k_calls, k_fd, k_flags, k_errno; static size_t k_len; static const uint8_t * k_ptr; static ssize_t k_ret; static size_t stream_pos;
static ssize_t kernel(int fd, const void * buf, size_t len, int flags)
{
	k_calls++; k_fd = fd; k_ptr = buf; k_len = len; k_flags = flags;
	k_ret = (ssize_t)nd_i64();
	ASSUME(k_ret >= -1 && k_ret <= (ssize_t)len);
#ifdef WRITE
	ASSUME(k_ret != 0);	/* send(2) on a stream socket with len > 0 never returns 0 */
#endif
	if (k_ret == -1) { errno = k_errno; return -1; }
	return k_ret;
}
ssize_t recv(int fd, void * buf, size_t len, int flags)
{
	ssize_t r = kernel(fd, buf, len, flags);
	for (size_t i = 0; i < MAXB; i++) if (r > 0 && i < (size_t)r && stream_pos + i < MAXB) ((uint8_t *)buf)[i] = PEER[stream_pos + i];
	if (r > 0) stream_pos += (size_t)r;
	return r;
}
ssize_t send(int fd, const void * buf, size_t len, int flags)
{
	ssize_t r = kernel(fd, buf, len, flags);
	for (size_t i = 0; i < MAXB; i++) if (r > 0 && i < (size_t)r && stream_pos + i < MAXB) PEER[stream_pos + i] = ((const uint8_t *)buf)[i];
	if (r > 0) stream_pos += (size_t)r;
	return r;
}
/* ---- user callback ---- */
static int ucb_calls; static ssize_t ucb_n; static void * ucb_cookie; static int ucb_rc; static char UC;
static int ucb(void * c, ssize_t n) { ucb_calls++; ucb_cookie = c; ucb_n = n; return ucb_rc; }

static uint8_t BUF[MAXB], BUF0[MAXB];
void h_callback_step(void)
{
	COOKIE * C = vh_cookie_malloc();
	size_t buflen = nd_size(), minlen = nd_size(), bufpos = nd_size();
	ASSUME(buflen >= 1 && buflen <= MAXB && minlen <= buflen && bufpos < buflen && (bufpos < minlen || (bufpos == 0 && minlen == 0)));
	C->callback = ucb; C->cookie = &UC; C->fd = 5; C->buf = BUF; C->buflen = buflen; C->minlen = minlen; C->bufpos = bufpos;
	for (size_t i = 0; i < MAXB; i++) { PEER[i] = nd_u8(); BUF0[i] = BUF[i] = nd_u8(); }
#ifndef WRITE
	for (size_t i = 0; i < MAXB; i++) if (i < bufpos) BUF[i] = BUF0[i] = PEER[i];	/* bytes received so far are the stream prefix */
#else
	for (size_t i = 0; i < MAXB; i++) if (i < bufpos) PEER[i] = BUF[i];		/* bytes handed over so far are the buffer prefix */
#endif
	stream_pos = bufpos;
	k_errno = nd_int(); reg_refuse = nd_bool(); ucb_rc = nd_int();
	int rc = callback_buf(C);
	CHECK(k_calls == 1 && k_fd == 5 && k_ptr == BUF + bufpos && k_len == buflen - bufpos, "one transfer attempt, at buf + bytes done so far, for exactly the remaining space");
#ifdef WRITE
	CHECK(k_flags == MSG_NOSIGNAL, "MSG_NOSIGNAL: a closed peer yields -1, not SIGPIPE");
#else
	CHECK(k_flags == 0, "plain recv");
#endif
	int retry = (k_ret == -1) && (k_errno == EAGAIN || k_errno == EWOULDBLOCK || k_errno == EINTR);
	size_t np = bufpos + (k_ret > 0 ? (size_t)k_ret : 0);
	int again = retry || (k_ret > 0 && np < minlen);
	if (again && !reg_refuse) {
		CHECK(ucb_calls == 0 && rc == 0, "not finished: no user callback yet");
		CHECK(reg_func == callback_buf && reg_cookie == C && reg_fd == 5 && reg_op == OP && reg_count == 1, "re-registered once for the same descriptor and direction with the same request");
		CHECK(CLIVE[C - CP] && C->bufpos == np, "request kept, progress recorded");
	} else {
		CHECK(ucb_calls == 1 && ucb_cookie == &UC && rc == ucb_rc, "exactly one user callback with the user's cookie; its status is propagated");
		CHECK(reg_func == NULL, "nothing left registered");
		CHECK(!CLIVE[C - CP], "request released after the callback");
		if (again) CHECK(ucb_n == -1, "registration failure is reported as -1");
		else if (k_ret == -1) CHECK(ucb_n == -1, "hard socket error => -1");
		else if (k_ret == 0) CHECK(ucb_n == 0, "end of stream => 0");
		else CHECK(ucb_n == (ssize_t)np && np >= minlen && np <= buflen, "success => n with min <= n <= buflen");
	}
	/* byte-exactness: after the step, the first np bytes of the buffer and of the stream coincide, nothing else was touched */
	size_t i = nd_size(); ASSUME(i < MAXB);
#ifndef WRITE
	CHECK(BUF[i] == (i < np ? PEER[i] : BUF0[i]), "buffer holds precisely the next bytes of the peer's stream, in order; bytes beyond are untouched");
#else
	if (i < np) CHECK(PEER[i] == BUF[i], "precisely the first n bytes of the buffer were handed to the socket, in order");
	CHECK(BUF[i] == BUF0[i], "the write buffer is not modified");
#endif
	CHECK(!reg_bad && !pool_bad, "no double registration, no double free");
	REACHED();
}
void h_start_cancel(void)
{
	size_t buflen = nd_size(), minlen = nd_size();
	ASSUME(buflen >= 1 && buflen <= MAXB && minlen <= buflen);
	reg_refuse = nd_bool();
	void * c = START(7, BUF, buflen, minlen, ucb, &UC);
	CHECK((c == NULL) == (reg_refuse != 0), "request accepted unless the event layer refuses (cookie pool not exhausted)");
	CHECK(ucb_calls == 0 && k_calls == 0, "nothing transferred, no callback at submission");
	if (c == NULL) { CHECK(!CLIVE[0] && !CLIVE[1] && reg_func == NULL, "a refused request leaves nothing registered and nothing allocated"); }
	else {
		COOKIE * C = c;
		CHECK(reg_func == callback_buf && reg_cookie == c && reg_fd == 7 && reg_op == OP, "registered for readiness");
		CHECK(C->bufpos == 0 && C->buflen == buflen && C->minlen == minlen && C->buf == BUF && C->callback == ucb && C->cookie == &UC, "in-flight state established");
		if (nd_bool()) {
			CANCEL(c);
			CHECK(reg_func == NULL && cancel_count == 1 && !CLIVE[0] && !CLIVE[1], "cancel: nothing registered, request released");
			CHECK(ucb_calls == 0 && k_calls == 0, "a cancelled request never calls back and transfers nothing further");
			void * c2 = START(7, BUF, buflen, minlen, ucb, &UC);	/* descriptor free for a new request */
			CHECK(c2 != NULL, "the descriptor is free for a new request");
		}
	}
	CHECK(!reg_bad && !pool_bad, "no double registration, no double free");
	REACHED();
}
