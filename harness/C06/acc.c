/* C06 (accept part): network_accept.c -- readiness-callback step with an arbitrary accept(2) answer, submission, cancel. */
#include <sys/socket.h>
#include <errno.h>
#include <stdint.h>
#include <stdlib.h>
#include "vh.h"
#include "network_accept.c"
static int (*reg_func)(void *); static void * reg_cookie; static int reg_fd, reg_op, reg_count, reg_bad, reg_refuse, cancel_count;
int events_network_register(int (*f)(void *), void * c, int s, int op) { if (reg_refuse) return -1; if (reg_func != NULL) reg_bad = 1; reg_func = f; reg_cookie = c; reg_fd = s; reg_op = op; reg_count++; return 0; }
int events_network_cancel(int s, int op) { cancel_count++; if (reg_func == NULL || s != reg_fd || op != reg_op) { reg_bad = 1; return -1; } reg_func = NULL; return 0; }
static int a_calls, a_ret, a_errno, a_fd;
int accept(int fd, struct sockaddr * sa, socklen_t * sl) { (void)sa; (void)sl; a_calls++; a_fd = fd; if (a_ret == -1) errno = a_errno; return a_ret; }
static int u_calls, u_s, u_rc; static void * u_ck; static char UC;
static int ucb(void * c, int s) { u_calls++; u_ck = c; u_s = s; return u_rc; }
void h_accept(void)
{
	reg_refuse = nd_bool();
	void * c = network_accept(9, ucb, &UC);
	CHECK((c == NULL) == (reg_refuse != 0), "request accepted unless the event layer refuses");
	CHECK(u_calls == 0 && a_calls == 0, "nothing happens at submission");
	if (c == NULL) { CHECK(reg_func == NULL, "refused request leaves nothing registered"); REACHED(); return; }
	CHECK(reg_func == callback_accept && reg_cookie == c && reg_fd == 9 && reg_op == EVENTS_NETWORK_OP_READ, "registered for readability of the listening socket");
	if (nd_bool()) { network_accept_cancel(c); CHECK(reg_func == NULL && u_calls == 0, "cancel: nothing registered, no callback"); REACHED(); return; }
	/* the event fires (one-shot: the slot is already cleared) */
	reg_func = NULL; reg_count = 0;
	a_ret = nd_int(); ASSUME(a_ret >= -1); a_errno = nd_int(); u_rc = nd_int(); reg_refuse = nd_bool();
	int rc = callback_accept(c);
	CHECK(a_calls == 1 && a_fd == 9, "one accept(2) on the listening socket");
	int retry = a_ret == -1 && (a_errno == EAGAIN || a_errno == EWOULDBLOCK || a_errno == ECONNABORTED || a_errno == EINTR);
	if (retry) {
		CHECK(u_calls == 0, "transient condition: no callback");
		if (!reg_refuse) CHECK(rc == 0 && reg_func == callback_accept && reg_cookie == c && reg_count == 1, "re-registered once");
	} else {
		CHECK(u_calls == 1 && u_ck == &UC && u_s == a_ret && rc == u_rc, "exactly one callback carrying the accepted socket, or -1 on a hard error");
		CHECK(reg_func == NULL, "nothing left registered");
	}
	CHECK(!reg_bad, "no double registration");
	REACHED();
}
