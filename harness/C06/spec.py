def obligations(tier):
    T = tier == "thorough"
    mb = 12 if T else 8
    obs = []
    for w, nm in ((0, "read"), (1, "write")):
        rep = ["mpool_network_%s_cookie_malloc:vh_cookie_malloc" % nm, "mpool_network_%s_cookie_free:vh_cookie_free" % nm]
        for ent, en, what in (("h_callback_step", "callback-step", "readiness-callback step from an arbitrary in-flight request with an arbitrary kernel answer: one transfer attempt at buf+done for the remaining space; re-registration exactly while below the minimum / on EAGAIN, EWOULDBLOCK, EINTR; otherwise exactly one user callback (n in [min, buflen], 0 at EOF, -1 on error) then the request is released; byte-exact prefix relation between buffer and stream"),
                              ("h_start_cancel", "start-cancel", "submission establishes the in-flight state and registers once; refusal leaves nothing behind; cancel unregisters, releases, never calls back, and the descriptor accepts a new request")):
            obs.append(dict(name="network-%s-%s" % (nm, en), harness="rw.c", entry=ent, defs=["MAXB=%d" % mb] + (["WRITE"] if w else []), unwind=mb + 3, replace=rep,
                            backends=["cadical"], timeout=1800 if T else 280, claim=what, bounds="buflen <= %d, every (buflen, min, done) combination, every kernel return value and errno" % mb,
                            stubs=["recv/send -> kernel model over a ghost byte stream", "events_network_register/cancel -> one-slot registry", "request cookie pool -> tracked"]))
    obs.append(dict(name="network-accept", harness="acc.c", entry="h_accept", unwind=8, backends=["cadical"], timeout=1800 if T else 280,
                    claim="network_accept: submission registers once; cancel leaves nothing and never calls back; the readiness callback makes one accept(2): EAGAIN/EWOULDBLOCK/ECONNABORTED/EINTR => re-register, otherwise exactly one callback with the accepted socket or -1",
                    bounds="every accept(2) return value and errno", stubs=["accept -> scripted", "events_network_register/cancel -> one-slot registry"]))
    for na in ([0, 1, 2, 3] if not T else [0, 1, 2, 3, 4]):
        obs.append(dict(name="network-connect-naddr%d" % na, harness="conn.c", entry="h_connect", defs=["NADDR=%d" % na], unwind=na + 4, backends=["cadical"], timeout=1800 if T else 280, flags=["--memory-leak-check"],
                        claim="network_connect / _bind / _timeo over a list of %d addresses, every combination of immediate failure, asynchronous failure, timeout and success, cancellation at every point: addresses tried in order, at most one callback carrying the first descriptor that connected or -1 when none did, failed descriptors closed exactly once, no registration or memory left behind" % na,
                        bounds="%d addresses" % na, stubs=["sock_connect_bind_nb, close, getsockopt -> scripted kernel", "events_network/timer/immediate register/cancel -> one-slot registries"]))
    return obs
TRUSTED = ["CBMC 6.11 C semantics", "cadical"]
ASSUMPTIONS = ["network_connect: getsockopt(SO_ERROR) is assumed to succeed and registrations made from inside callbacks are assumed accepted (their failure is a fatal error returned to the event loop without a user callback, by design); in network_accept a refused RE-registration after a transient error returns -1 to the event loop without a user callback (observed, not asserted either way)", "send(2) never returns 0 for a non-empty buffer (the code asserts it)"]
EXPLANATION = ""
