/*
 * C06 (connect part): network/network_connect.c driven through a whole connection attempt over a list of NADDR
 * addresses (NADDR a constant per obligation), with the environment answering nondeterministically:
 *   sock_connect_bind_nb   fails at once (-1) or returns a fresh descriptor (100 + address index)
 *   then, for the descriptor being waited on, the harness delivers ONE of the events the code registered:
 *     writability (one-shot; getsockopt(SO_ERROR) says 0 = connected or an error = failed asynchronously), or
 *     the per-address timer (only if a timeout was asked for),
 *   or the caller cancels, at any point.
 * Checked: addresses are tried in list order, each at most once, never past the first that connected; exactly one
 * user callback, carrying that descriptor, or -1 when every address failed (at once, asynchronously or by timeout) --
 * delivered from an immediate event when no attempt is pending; every descriptor of a failed attempt is closed exactly
 * once, the delivered one is not; no registration (socket, timer, immediate) outlives the attempt it belongs to;
 * cancel: no callback, everything released; nothing leaks (--memory-leak-check).
 * Assumed: getsockopt itself succeeds and the event layer accepts registrations made from inside callbacks
 * (failures there are fatal errors returned to the event loop without a user callback, by design).
 */
#include <sys/socket.h>
#include <sys/time.h>
#include <errno.h>
#include <stdint.h>
#include <stdlib.h>
#include "vh.h"
#include "stub_warnp.c"
#include "network_connect.c"
#ifndef NADDR
#define NADDR 2
#endif
struct sock_addr { int dummy; };
static struct sock_addr SA[NADDR + 1]; static struct sock_addr * SAS[NADDR + 1]; static struct sock_addr BIND;
/* environment answers, drawn up front */
static int imm_fail[NADDR + 1];
/* monitors */
static int next_try, order_bad, tried_after_success, bind_bad; static const struct sock_addr * want_bind;
static int fd_open[NADDR + 1], fd_closed[NADDR + 1], close_bad;
int sock_connect_bind_nb(const struct sock_addr * sa, const struct sock_addr * sa_b)
{
	int i = (int)(sa - SA);
	if (i != next_try || i < 0 || i >= NADDR) order_bad = 1;
	next_try = i + 1;
	if (sa_b != want_bind) bind_bad = 1;
	if (i < 0 || i >= NADDR || imm_fail[i]) return -1;
	fd_open[i] = 1;
	return 100 + i;
}
int close(int fd) { int i = fd - 100; if (i < 0 || i >= NADDR || !fd_open[i] || fd_closed[i]) { close_bad = 1; return -1; } fd_closed[i] = 1; return 0; }
static int net_reg, net_fd, net_bad, reg_refuse; static int (*net_cb)(void *); static void * net_ck;
int events_network_register(int (*f)(void *), void * c, int s, int op) { if (reg_refuse) return -1; if (net_reg || op != EVENTS_NETWORK_OP_WRITE) net_bad = 1; net_reg = 1; net_cb = f; net_ck = c; net_fd = s; return 0; }
int events_network_cancel(int s, int op) { if (!net_reg || s != net_fd || op != EVENTS_NETWORK_OP_WRITE) { net_bad = 1; return -1; } net_reg = 0; return 0; }
static int tim_reg, tim_bad, tim_count; static int (*tim_cb)(void *); static void * tim_ck; static struct timeval tim_tv; static char TOK_T, TOK_I;
void * events_timer_register(int (*f)(void *), void * c, const struct timeval * tv) { if (reg_refuse) return NULL; if (tim_reg) tim_bad = 1; tim_reg = 1; tim_cb = f; tim_ck = c; tim_tv = *tv; tim_count++; return &TOK_T; }
void events_timer_cancel(void * t) { if (!tim_reg || t != &TOK_T) tim_bad = 1; tim_reg = 0; }
static int imm_reg, imm_bad; static int (*imm_cb)(void *); static void * imm_ck;
void * events_immediate_register(int (*f)(void *), void * c, int prio) { (void)prio; if (reg_refuse) return NULL; if (imm_reg) imm_bad = 1; imm_reg = 1; imm_cb = f; imm_ck = c; return &TOK_I; }
void events_immediate_cancel(void * t) { if (!imm_reg || t != &TOK_I) imm_bad = 1; imm_reg = 0; }
static int so_err;
int getsockopt(int s, int l, int o, void * v, socklen_t * n) { (void)s; (void)l; (void)o; (void)n; *(int *)v = so_err; return 0; }
static int u_calls, u_s, u_rc; static void * u_ck; static char UC;
static int ucb(void * c, int s) { u_calls++; u_ck = c; u_s = s; return u_rc; }

void h_connect(void)
{
	for (int i = 0; i < NADDR; i++) { SAS[i] = &SA[i]; imm_fail[i] = nd_bool(); }
	SAS[NADDR] = NULL;
	u_rc = nd_int();
	int mode = nd_int_in(0, 2);	/* plain, bind, timeout */
	struct timeval tv; tv.tv_sec = 3; tv.tv_usec = 141592;
	reg_refuse = nd_bool();
	void * c;
	if (mode == 0) { want_bind = NULL; c = network_connect(SAS, ucb, &UC); }
	else if (mode == 1) { want_bind = &BIND; c = network_connect_bind(SAS, &BIND, ucb, &UC); }
	else { want_bind = NULL; c = network_connect_timeo(SAS, &tv, ucb, &UC); }
	CHECK(u_calls == 0, "no callback from inside the submission");
	if (c == NULL) {
#ifndef MMF
		CHECK(reg_refuse, "submission fails only if the event layer refuses a registration");
#endif
		CHECK(!net_reg && !tim_reg && !imm_reg, "a refused submission leaves nothing registered");
		for (int i = 0; i < NADDR; i++) CHECK(!fd_open[i] || fd_closed[i], "and no descriptor open");
		CHECK(!close_bad && !order_bad, "descriptors closed once, addresses in order");
		REACHED();
		return;
	}
	reg_refuse = 0;	/* see the header comment: registrations made from inside callbacks are assumed to succeed */
	int connected = -1, done = 0;
	for (int step = 0; step <= NADDR && !done; step++) {
		/* state between events: either an attempt is pending on a descriptor, or the final -1 is scheduled */
		CHECK(net_reg + imm_reg == 1, "exactly one of: waiting for a descriptor, or the failure callback scheduled");
		if (net_reg) {
			int i = net_fd - 100;
			CHECK(i >= 0 && i < NADDR && i == next_try - 1 && fd_open[i] && !fd_closed[i] && net_cb == callback_connect && net_ck == c, "waiting for writability of the descriptor of the address tried last");
			CHECK(tim_reg == (mode == 2), "a timer runs for this attempt iff a timeout was asked for");
			if (tim_reg) CHECK(tim_cb == callback_timeo && tim_ck == c && tim_tv.tv_sec == 3 && tim_tv.tv_usec == 141592, "with the caller's duration");
			for (int k = 0; k < NADDR; k++) if (k != i) CHECK(!fd_open[k] || fd_closed[k], "descriptors of earlier attempts are closed");
		} else CHECK(!tim_reg && next_try == NADDR && imm_cb == docallback && imm_ck == c, "every address was tried; the -1 callback is scheduled, no timer");
		int ev = nd_int_in(0, 2);
		if (ev == 0) {	/* the caller cancels */
			network_connect_cancel(c);
			CHECK(u_calls == 0 && !net_reg && !tim_reg && !imm_reg, "cancel: no callback, nothing registered");
			for (int k = 0; k < NADDR; k++) CHECK(!fd_open[k] || fd_closed[k], "cancel: no descriptor left open");
			done = 1;
		} else if (imm_reg) {	/* the scheduled failure callback runs */
			imm_reg = 0;
			CHECK(imm_cb == docallback, "the scheduled event is the request's own callback step");
			int rc = docallback(imm_ck);
			CHECK(u_calls == 1 && u_s == -1 && u_ck == &UC && rc == u_rc, "no address connected: exactly one callback with -1");
			done = 1;
		} else if (ev == 1 || !tim_reg) {	/* the descriptor becomes writable: connected, or failed asynchronously */
			int i = net_fd - 100;
			net_reg = 0;
			so_err = nd_int();
			int rc = callback_connect(net_ck);
			if (so_err == 0) {
				CHECK(u_calls == 1 && u_s == 100 + i && u_ck == &UC && rc == u_rc, "connected: exactly one callback carrying this descriptor");
				CHECK(!fd_closed[i] && !net_reg && !tim_reg && !imm_reg, "the delivered descriptor stays open; nothing left registered");
				connected = i; done = 1;
			} else CHECK(u_calls == 0 && fd_closed[i] && rc == 0, "asynchronous failure: descriptor closed, next address tried, no callback yet");
		} else {	/* the per-address timeout expires first */
			int i = net_fd - 100;
			tim_reg = 0;
			int rc = callback_timeo(tim_ck);
			CHECK(u_calls == 0 && fd_closed[i] && rc == 0, "timeout: descriptor closed and unregistered, next address tried, no callback yet");
		}
	}
	CHECK(done, "the attempt ends within one event per address plus the final callback");
	CHECK(u_calls <= 1, "never more than one callback");
	CHECK(!order_bad && !bind_bad, "addresses tried in list order, each once, with the caller's bind address");
	if (connected >= 0) CHECK(next_try == connected + 1, "no address is tried after the one that connected");
	CHECK(!close_bad && !net_bad && !tim_bad && !imm_bad, "every descriptor closed at most once; registrations and cancellations pair up");
	REACHED();
}
