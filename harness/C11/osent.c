/*
 * C11 (OS entropy reader): util/entropy.c -- entropy_read(buf, buflen) against a scripted kernel:
 * open() succeeds or fails; every read() returns -1, 0 or any k in [1, n] and then delivers the next k bytes of a ghost
 * device stream; close() may be interrupted (EINTR) a few times or fail.
 * Checked: success iff the device opened, every read made progress until the buffer was full, and close succeeded; on
 * success buf == the first buflen bytes of the device stream, each read asked for exactly the remaining space at
 * buf + done; the descriptor is closed on every path that opened it, never used after; nothing leaks.
 */
#include <errno.h>
#include <fcntl.h>
#include <stdint.h>
#include <stdlib.h>
#include <unistd.h>
#include "vh.h"
#include "stub_warnp.c"
#ifndef BL
#define BL 32
#endif
#ifndef MAXREADS
#define MAXREADS 4
#endif
static int open_fail, fd_state;	/* 0 = never opened, 1 = open, 2 = closed */
static size_t obs_j; static uint8_t dev_j; static size_t dev_pos; static int rd_calls, rd_bad, rd_fail_seen; static uint8_t * want_buf; static size_t want_len;
static int close_eintr, close_fail, close_calls, use_after_close;
int vh_open(const char * path, int flags, ...) { (void)flags; if (path[5] != 'u') rd_bad = 1; if (open_fail) { errno = ENOENT; return -1; } if (fd_state == 1) rd_bad = 1; fd_state = 1; return 7; }
ssize_t vh_read(int fd, void * p, size_t n)
{
	rd_calls++;
	if (fd != 7 || fd_state != 1) { use_after_close = 1; return -1; }
	if (p != want_buf || n != want_len || n == 0) rd_bad = 1;	/* exactly the remaining space, at buf + done */
	int64_t k = nd_i64();
	if (k < -1 || k > (int64_t)n) k = -1;
	if (rd_calls >= MAXREADS && k > 0) k = (int64_t)n;	/* bound: the device fills the buffer in at most MAXREADS pieces (any split points) */
	if (k <= 0) { rd_fail_seen = 1; if (k < 0) errno = EIO; return (ssize_t)k; }
	/* single observation: only device byte obs_j (chosen before the call, arbitrary) is tracked */
	if (obs_j >= dev_pos && obs_j < dev_pos + (size_t)k) ((uint8_t *)p)[obs_j - dev_pos] = dev_j;
	dev_pos += (size_t)k; want_buf += k; want_len -= (size_t)k;
	return (ssize_t)k;
}
int vh_close(int fd)
{
	close_calls++;
	if (fd != 7 || fd_state != 1) { use_after_close = 1; return -1; }
	if (close_eintr > 0) { close_eintr--; errno = EINTR; return -1; }
	fd_state = 2;	/* POSIX leaves the descriptor state unspecified after a failed close; the code gives up, as it must */
	if (close_fail) { errno = EIO; return -1; }
	return 0;
}
#define open vh_open
#define read vh_read
#define close vh_close
#include "entropy.c"
#undef open
#undef read
#undef close
void h_osent(void)
{
	uint8_t * buf = malloc(BL ? BL : 1); ASSUME(buf != NULL);
	open_fail = nd_bool(); close_eintr = nd_int_in(0, 2); close_fail = nd_bool();
	want_buf = buf; want_len = BL;
	size_t j = nd_size(); ASSUME(j < (BL ? BL : 1)); obs_j = j; dev_j = nd_u8();
	uint8_t other = nd_u8(); ASSUME(other != dev_j); if (BL) buf[j] = other;	/* so that a byte that is never written is noticed */
	int rc = entropy_read(buf, BL);
	int ok = !open_fail && !rd_fail_seen && !close_fail;
	CHECK((rc == 0) == ok && (rc == 0 || rc == -1), "success iff the device opened, every read made progress, and close succeeded");
	if (rc == 0) {
		CHECK(dev_pos == BL && want_len == 0, "the buffer was filled completely");
		if (BL) CHECK(buf[j] == dev_j, "with the device's bytes, in order, none skipped or repeated");
	}
	CHECK(!rd_bad, "every read asks for exactly the remaining space at buf + done, on /dev/urandom");
	CHECK(!use_after_close, "the descriptor is never used after it was closed");
	CHECK(open_fail ? fd_state == 0 : fd_state == 2, "a descriptor that was opened is closed on every path");
	if (open_fail) CHECK(rd_calls == 0 && close_calls == 0, "nothing is read if the device cannot be opened");
	free(buf);
	REACHED();
}
