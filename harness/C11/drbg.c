/*
 * C11: crypto_entropy.c (built WITHOUT CPUSUPPORT_X86_RDRAND, as the property prescribes) == SP 800-90A HMAC_DRBG
 * over an UNINTERPRETED HMAC-SHA256 (HMAC itself is C01's subject).  The HMAC entry points are defined here (the
 * providing TU is not linked): they accumulate (key, data) and return outputs drawn up front; one PRF call, chosen
 * nondeterministically before the code runs, is observed (key byte, data byte, length) -- universal generalisation.
 */
#include <stdint.h>
#include <stdlib.h>
#include <string.h>
#include "vh.h"
#include "stub_warnp.c"
#include "sha256.h"
#define NCALL 8
#define DCAP 96
static uint8_t cur_key[32], cur_data[DCAP]; static size_t cur_klen, cur_dlen; static int ovf;
static size_t ncall, fstar, kstar, dstar;
static uint8_t OUT[NCALL][32];	/* PRF outputs, drawn up front, read-only for the stub */
static size_t obs_klen, obs_dlen; static uint8_t obs_k, obs_d;
static void prf_finish(uint8_t * digest)
{
	CHECK(ncall < NCALL, "no more PRF calls than the construction needs");
	if (ncall >= NCALL) return;
	if (ncall == fstar) { obs_klen = cur_klen; obs_dlen = cur_dlen; obs_k = cur_key[kstar]; obs_d = cur_data[dstar]; }
	for (int i = 0; i < 32; i++) digest[i] = OUT[ncall][i];
	ncall++;
}
void HMAC_SHA256_Init(HMAC_SHA256_CTX * c, const void * K, size_t Klen) { (void)c; if (Klen > 32) { ovf = 1; Klen = 32; } memcpy(cur_key, K, Klen); cur_klen = Klen; cur_dlen = 0; }
void HMAC_SHA256_Update(HMAC_SHA256_CTX * c, const void * in, size_t len) { (void)c; if (cur_dlen + len > DCAP) { ovf = 1; return; } if (len) memcpy(cur_data + cur_dlen, in, len); cur_dlen += len; }
void HMAC_SHA256_Final(uint8_t * d, HMAC_SHA256_CTX * c) { (void)c; prf_finish(d); }
void HMAC_SHA256_Buf(const void * K, size_t Klen, const void * in, size_t len, uint8_t * d)
{
	uint8_t tmp[DCAP];	/* in may alias d */
	if (len > DCAP) { ovf = 1; len = DCAP; }
	memcpy(tmp, in, len);
	HMAC_SHA256_Init(NULL, K, Klen); HMAC_SHA256_Update(NULL, tmp, len); prf_finish(d);
}
static int er_fail; static size_t er_calls, er_len; static uint8_t ER[48];
int entropy_read(uint8_t * buf, size_t buflen)
{
	er_calls++; er_len = buflen;
	if (er_fail) return -1;
	for (size_t i = 0; i < 48; i++) if (i < buflen) buf[i] = ER[i];
	return 0;
}
#include "crypto_entropy.c"

static void draw(void)
{
	for (int f = 0; f < NCALL; f++) for (int i = 0; i < 32; i++) OUT[f][i] = nd_u8();
	fstar = nd_size(); kstar = nd_size(); dstar = nd_size();
	ASSUME(fstar < NCALL && kstar < 32 && dstar < DCAP);
	for (int i = 0; i < 48; i++) ER[i] = nd_u8();
}
/* expected (key, data) of PRF call number fstar inside one update(data, n) that starts at call base with state (K0, V0) */
static uint8_t K0[32], V0[32];
static void arbitrary_state(void) { for (int i = 0; i < 32; i++) { K0[i] = drbg.Key[i] = nd_u8(); V0[i] = drbg.V[i] = nd_u8(); } }
static const uint8_t * outp(size_t k) { return OUT[k < NCALL ? k : 0]; }
static void expect_update_call(size_t base, const uint8_t * Kin, const uint8_t * Vin, const uint8_t * data, size_t n)
{
	size_t j = fstar - base;	/* 0..3 within this update */
	if (fstar < base || j > 3 || (n == 0 && j > 1)) return;
	const uint8_t * key = (j == 0) ? Kin : (j == 1) ? outp(base) : (j == 2) ? outp(base) : outp(base + 2);
	CHECK(obs_klen == 32 && obs_k == key[kstar], "HMAC key of this step: K, then the K just produced");
	if (j == 0 || j == 2) {
		const uint8_t * V = (j == 0) ? Vin : outp(base + 1);
		CHECK(obs_dlen == 33 + n, "K <- HMAC(K, V || 0x00/0x01 || provided_data): length");
		if (dstar < 33 + n) CHECK(obs_d == (dstar < 32 ? V[dstar] : dstar == 32 ? (j == 0 ? 0x00 : 0x01) : data[dstar - 33]), "K <- HMAC(K, V || 0x00/0x01 || provided_data): content");
	} else {
		const uint8_t * V = (j == 1) ? Vin : outp(base + 1);
		CHECK(obs_dlen == 32, "V <- HMAC(K, V): length");
		if (dstar < 32) CHECK(obs_d == V[dstar], "V <- HMAC(K, V): content");
	}
}
void h_update(void)
{
	uint8_t data[48]; size_t n;
	draw(); arbitrary_state();
	for (int i = 0; i < 48; i++) data[i] = nd_u8();
	switch (nd_int_in(0, 2)) { case 0: n = 0; break; case 1: n = 32; break; default: n = 48; break; }
	update(n ? data : NULL, n);
	CHECK(!ovf, "stub capacity");
	CHECK(ncall == (n ? 4 : 2), "two HMAC calls, four when data is provided (SP 800-90A 10.1.2.2)");
	expect_update_call(0, K0, V0, data, n);
	size_t b = nd_size(); ASSUME(b < 32);
	CHECK(drbg.Key[b] == OUT[n ? 2 : 0][b] && drbg.V[b] == OUT[n ? 3 : 1][b], "new (Key, V)");
	REACHED();
}
#ifndef MAXG
#define MAXG 70
#endif
void h_generate(void)
{
	uint8_t buf[MAXG + 8], buf0[MAXG + 8];
	draw(); arbitrary_state();
	size_t n = nd_size_le(MAXG);
	uint32_t rc0 = nd_u32(); ASSUME(rc0 >= 1 && rc0 <= RESEED_INTERVAL);
	drbg.reseed_counter = rc0;
	for (size_t i = 0; i < MAXG + 8; i++) buf0[i] = buf[i] = nd_u8();
	generate(buf, n);
	size_t m = (n + 31) / 32;
	CHECK(!ovf, "stub capacity");
	CHECK(ncall == m + 2, "one HMAC per 32 output bytes, then update() without data (10.1.2.5)");
	if (fstar < m) {
		CHECK(obs_klen == 32 && obs_k == K0[kstar], "output blocks keyed with the unchanged Key");
		CHECK(obs_dlen == 32, "V <- HMAC(Key, V)");
		if (dstar < 32) CHECK(obs_d == (fstar == 0 ? V0[dstar] : outp(fstar - 1)[dstar]), "each block feeds the next");
	} else expect_update_call(m, K0, m ? outp(m - 1) : V0, NULL, 0);
	size_t i = nd_size(); ASSUME(i < n);
	CHECK(buf[i] == OUT[i / 32][i % 32], "returned bytes are the leftmost bytes of the V sequence");
	size_t t = nd_size(); ASSUME(t >= n && t < MAXG + 8);
	CHECK(buf[t] == buf0[t], "nothing written beyond buflen");
	size_t b = nd_size(); ASSUME(b < 32);
	CHECK(drbg.Key[b] == outp(m)[b] && drbg.V[b] == outp(m + 1)[b], "state after generate");
	CHECK(drbg.reseed_counter == rc0 + 1, "reseed counter incremented");
	REACHED();
}
void h_instantiate_reseed(void)
{
	draw(); arbitrary_state();
	er_fail = nd_bool();
	uint32_t rc0 = drbg.reseed_counter = nd_u32();
	int which = nd_bool();
	uint8_t Kz[32], Vo[32]; memset(Kz, 0, 32); memset(Vo, 1, 32);
	int rc = which ? instantiate() : reseed();
	CHECK(er_calls == 1 && er_len == (which ? 48 : 32), "48 bytes of OS entropy to instantiate, 32 to reseed");
	CHECK((rc == -1) == (er_fail != 0) && (rc == 0 || rc == -1), "fails exactly when the OS entropy source fails");
	if (rc == 0) {
		CHECK(ncall == 4, "one update() with the seed material");
		expect_update_call(0, which ? Kz : K0, which ? Vo : V0, ER, which ? 48 : 32);
		CHECK(drbg.reseed_counter == 1, "reseed counter = 1");
		size_t b = nd_size(); ASSUME(b < 32);
		CHECK(drbg.Key[b] == OUT[2][b] && drbg.V[b] == OUT[3][b], "state = update(seed) applied to (00.., 01..) / the old state");
	} else {
		CHECK(ncall == 0, "no output derived when the entropy source failed");
		size_t b = nd_size(); ASSUME(b < 32);
		CHECK(drbg.Key[b] == K0[b] && drbg.V[b] == V0[b] && drbg.reseed_counter == rc0, "state untouched on failure");
	}
	REACHED();
}

/* ---- top level: chunking, reseed schedule, failure handling, with instantiate/reseed/generate rebound to logging stubs ---- */
#define NEV 16
static int ev_kind[NEV]; static size_t ev_len[NEV]; static uint8_t * ev_buf[NEV]; static size_t nev; static int inst_fail, reseed_fail_at, reseeds;
static void ev(int k, uint8_t * b, size_t l) { if (nev < NEV) { ev_kind[nev] = k; ev_buf[nev] = b; ev_len[nev] = l; } nev++; }
int st_instantiate(void) { ev(1, NULL, 0); if (inst_fail) return -1; drbg.reseed_counter = 1; return 0; }
int st_reseed(void) { ev(2, NULL, 0); if (reseeds++ == reseed_fail_at) return -1; drbg.reseed_counter = 1; return 0; }
void st_generate(uint8_t * b, size_t l) { ev(3, b, l); CHECK(l <= GENERATE_MAXLEN && l > 0, "each generate request is 1..65536 bytes"); CHECK(drbg.reseed_counter <= RESEED_INTERVAL, "never generates from a state past the reseed interval"); CHECK(instantiated || nev > 0, "never generates before instantiation"); drbg.reseed_counter += 1; }
void h_read(void)
{
	static uint8_t big[1];
	size_t buflen = nd_size_le(5 * 65536 + 7);
	instantiated = nd_bool();
	drbg.reseed_counter = nd_u32(); ASSUME(drbg.reseed_counter >= 1 && drbg.reseed_counter <= RESEED_INTERVAL + 1);
	uint32_t rc0 = drbg.reseed_counter; int inst0 = instantiated;
	inst_fail = nd_bool(); reseed_fail_at = nd_int_in(-1, 1);
	int rc = crypto_entropy_read(big, buflen);	/* the stubs never touch the buffer */
	CHECK(nev <= NEV, "event log capacity");
	/* replay the documented behaviour */
	size_t e = 0, left = buflen; uint8_t * p = big; uint32_t ctr = rc0; int want = 0, rs = 0;
	if (!inst0) { CHECK(nev > e && ev_kind[e] == 1, "instantiate on first use"); e++; if (inst_fail) want = -1; else ctr = 1; }
	for (int it = 0; it < 7 && want == 0 && left > 0; it++) {
		if (ctr > RESEED_INTERVAL) { CHECK(nev > e && ev_kind[e] == 2, "reseed when the counter exceeds 256, before generating"); e++; if (rs++ == reseed_fail_at) { want = -1; break; } ctr = 1; }
		size_t l = left > 65536 ? 65536 : left;
		CHECK(nev > e && ev_kind[e] == 3 && ev_len[e] == l && ev_buf[e] == p, "consecutive generate calls of at most 65536 bytes covering the buffer in order");
		e++; p += l; left -= l; ctr++;
	}
	CHECK(nev == e, "nothing else happens (in particular no generate after a failed entropy read)");
	CHECK(rc == want, "returns 0 on success, -1 exactly when the OS entropy source failed");
	if (rc == 0) CHECK(instantiated == 1, "instantiated");
	if (!inst0 && inst_fail) CHECK(instantiated == 0, "a failed instantiation leaves the generator unseeded (retried next time)");
	REACHED();
}
