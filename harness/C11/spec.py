MZ = ["util/insecure_memzero.c"]
def obligations(tier):
    T = tier == "thorough"
    to = 1800 if T else 280
    mg = 100 if T else 70
    obs = []
    U = ["insecure_memzero_func.0:100"]
    S = ["HMAC_SHA256_* -> uninterpreted PRF (outputs drawn up front, one observed call)", "entropy_read -> nondeterministic content and failure", "warnp"]
    obs.append(dict(name="drbg-update", harness="drbg.c", entry="h_update", cpu=[], srcs=MZ, unwind=100, unwindset=U, timeout=to,
                    claim="update(provided_data) for |data| in {0,32,48} from an arbitrary (Key,V) == SP 800-90A 10.1.2.2 over an abstract HMAC", bounds="none beyond |data| in {0,32,48}", stubs=S))
    obs.append(dict(name="drbg-generate", harness="drbg.c", entry="h_generate", defs=["MAXG=%d" % mg], cpu=[], srcs=MZ, unwind=mg + 12, unwindset=U + ["generate#0:%d" % (mg // 32 + 2)], timeout=to,
                    claim="generate(n) from an arbitrary state == 10.1.2.5 without additional input: V chain, leftmost n bytes, update(), counter+1; nothing written beyond n", bounds="n <= %d (last block partial)" % mg, stubs=S))
    obs.append(dict(name="drbg-instantiate-reseed", harness="drbg.c", entry="h_instantiate_reseed", cpu=[], srcs=MZ, unwind=100, unwindset=U, timeout=to,
                    claim="instantiate (48 bytes OS entropy, Key=00.., V=01.., counter=1) / reseed (32 bytes) == 10.1.2.3/10.1.2.4; entropy failure => -1, no HMAC output, state untouched", bounds="none", stubs=S))
    obs.append(dict(name="entropy-read-schedule", harness="drbg.c", entry="h_read", cpu=[], srcs=MZ, unwind=20, unwindset=["libcperciva_crypto_entropy_read#0:8"],
                    replace=["instantiate:st_instantiate", "reseed:st_reseed", "generate:st_generate"], timeout=to, replay="model",
                    claim="crypto_entropy_read: instantiate on first use; requests served as consecutive generate calls of <= 65536 bytes covering the buffer; reseed exactly when the counter exceeds 256; first entropy failure => -1 and nothing generated after it; never generates unseeded or past the interval",
                    bounds="buflen <= 5*65536+7 (symbolic), reseed_counter in [1,257], instantiated in {0,1}", stubs=["instantiate/reseed/generate -> logging stubs (their bodies are the other obligations)"]))
    for bl in ([0, 1, 32, 48] if not T else [0, 1, 2, 32, 48, 64]):
        obs.append(dict(name="os-entropy-read-len%d" % bl, harness="osent.c", entry="h_osent", defs=["BL=%d" % bl, "MAXREADS=%d" % (6 if T else 4)], cpu=[], unwind=10, timeout=to, flags=["--memory-leak-check"],
                        claim="util/entropy.c entropy_read(%d bytes) over a scripted kernel (open may fail; every read returns -1, 0 or any k in [1, n]; close may be interrupted or fail): success iff opened, every read progressed until full, close succeeded; on success the buffer holds exactly the device's next %d bytes; reads ask for exactly the remaining space; descriptor closed on every path, never used afterwards; no leak" % (bl, bl),
                        bounds="buflen %d; the device delivers it in at most %d reads (every split); up to 2 EINTR on close" % (bl, 6 if T else 4), stubs=["open/read/close -> scripted kernel over a ghost device stream", "warn -> empty"]))
    return obs
TRUSTED = ["CBMC 6.11 C semantics", "cadical", "C01 for HMAC-SHA256 itself"]
ASSUMPTIONS = ["build without CPUSUPPORT_X86_RDRAND (extra hardware input is not part of the SP 800-90A model, as the property states)"]
EXPLANATION = ""
