def obligations(tier):
    T = tier == "thorough"
    sl = 3 if T else 2
    to = 2400 if T else 280
    obs = []
    S = ["SHA256_Buf / HMAC_SHA256_Buf -> uninterpreted functions (outputs drawn up front, one observed call)", "asprintf/strdup/free -> fixed-buffer mini-formatter (%s %d %%)", "time -> arbitrary instant or failure; gmtime_r -> arbitrary in-range broken-down time; strftime -> the two formats used", "warnp"]
    LV = [("len0", (0,0,0,0,0,0)), ("len1", (1,1,1,1,1,1)), ("len2", (2,2,2,2,2,2)), ("mixed", (2,0,1,2,1,0))] + ([("len3", (3,3,3,3,3,3)), ("mixed2", (0,3,2,1,0,3))] if T else [])
    for v, nm in ((0, "s3-headers"), (1, "service-headers"), (2, "dynamodb-headers")):
      for ln, lv in LV:
        obs.append(dict(name="sigv4-%s-%s" % (nm, ln), harness="sigv4.c", entry="h_headers", defs=["VARIANT=%d" % v, "SL=%d" % sl, "L0=%d" % lv[0], "L1=%d" % lv[1], "L2=%d" % lv[2], "L3=%d" % lv[3], "L4=%d" % lv[4], "L5=%d" % lv[5]], unwind=440, backends=["cadical"], timeout=to, replay="model",
                        claim="aws_sign_%s: content hash = hex(SHA-256(body)) (absent body = empty); canonical request, key chain kDate->kRegion->kService->kSigning, string to sign and Authorization header are byte-for-byte the independent SigV4 construction for the returned timestamp; scope date = date part of that timestamp; one clock sample" % nm.replace("-", "_"),
                        bounds="caller strings (key id, secret, region, a, b, c) with the length vector %s (one vector per obligation; contents symbolic over {A,z,0,9,-,.,_,~}); body absent / 0..4 arbitrary bytes; any instant" % (lv,), stubs=S))
    EXP = {"len0": 0, "len1": 7, "len2": 86400, "mixed": -1, "len3": 2147483647, "mixed2": 604800}
    for ln, lv in LV:
      obs.append(dict(name="sigv4-s3-querystring-" + ln, harness="sigv4.c", entry="h_querystr", defs=["VARIANT=0", "SL=%d" % sl, "L0=%d" % lv[0], "L1=%d" % lv[1], "L2=%d" % lv[2], "L3=%d" % lv[3], "L4=%d" % lv[4], "L5=%d" % lv[5], "EXPIRY=%d" % EXP[ln]], unwind=440, backends=["cadical"], timeout=to, replay="model",
                    claim="aws_sign_s3_querystr: canonical request (UNSIGNED-PAYLOAD, percent-encoded credential), key chain, string to sign and the returned query string equal the independent SigV4 construction",
                    bounds="string length vector %s; expiry = %d (over the obligations: 0, 7, 86400, -1 [+ INT_MAX, 604800 thorough])" % (lv, EXP[ln]), stubs=S))
    for ent, nm in (("h_headers", "headers"), ("h_querystr", "querystring")):
        obs.append(dict(name="sigv4-clock-failure-" + nm, harness="sigv4.c", entry=ent, defs=["VARIANT=0", "SL=%d" % sl, "TIMEFAIL"], unwind=440, backends=["cadical"], timeout=to, replay="model",
                        claim="time() failing => failure reported, nothing hashed or returned", bounds="-", stubs=S))
    return obs
TRUSTED = ["CBMC 6.11 C semantics", "cadical", "the reference construction in harness/C19/sigv4.c (plain concatenation following the published algorithm)", "C01 for SHA-256 / HMAC-SHA256 themselves"]
ASSUMPTIONS = ["formatting by libc's vsnprintf/strftime/gmtime_r is modelled, not encoded (calendar arithmetic of gmtime_r is outside the claim)", "strings longer than the bound and bodies above 4 bytes are outside the claim (the layouts do not depend on them; the hash of the body is C01's)"]
EXPLANATION = ""
