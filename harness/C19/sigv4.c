/*
 * C19: aws/aws_sign.c against an independent Signature Version 4 construction, with SHA-256 and HMAC-SHA256
 * UNINTERPRETED (C01 decides them): the harness checks that every hash/HMAC is applied to exactly the byte strings the
 * published algorithm prescribes, and that the returned headers / query string are assembled from their outputs.
 * Models (all in this file): asprintf/strdup format into fixed buffers with a mini-formatter for %s %d %% (the real
 * util/asprintf.c is two vsnprintf calls and has its own obligation), time() = arbitrary instant or failure,
 * gmtime_r = arbitrary broken-down time in range (the same for the same instant), strftime for the two formats used.
 * hexify is the real util/hexify.c.
 */
#include <stdarg.h>
#include <stdint.h>
#include <stdlib.h>
#include <string.h>
#include <time.h>
#include "vh.h"
#include "stub_warnp.c"
#include "sha256.h"
#include "hexify.c"
#ifndef SL
#define SL 2	/* maximum length of each caller-supplied string */
#endif
/* ---------------- uninterpreted hashes ---------------- */
#define NCALL 8
#define DCAP 420
static size_t ncall, fstar, kstar, dstar;
static uint8_t OUT[NCALL][32];
static int obs_is_hmac; static size_t obs_klen, obs_dlen; static uint8_t obs_k, obs_d; static int cap_bad;
static void uf(int is_hmac, const uint8_t * key, size_t klen, const uint8_t * data, size_t dlen, uint8_t * out)
{
	if (ncall >= NCALL || dlen > DCAP || klen > 64) { cap_bad = 1; return; }
	if (ncall == fstar) { obs_is_hmac = is_hmac; obs_klen = klen; obs_dlen = dlen; obs_k = (kstar < klen) ? key[kstar] : 0; obs_d = (dstar < dlen) ? data[dstar] : 0; }
	for (int i = 0; i < 32; i++) out[i] = OUT[ncall][i];
	ncall++;
}
void SHA256_Buf(const void * in, size_t len, uint8_t digest[32]) { uf(0, NULL, 0, in, len, digest); }
void HMAC_SHA256_Buf(const void * K, size_t Klen, const void * in, size_t len, uint8_t digest[32]) { uf(1, K, Klen, in, len, digest); }
/* ---------------- libc models ---------------- */
/*
 * Every string that flows through the formatter has a CONCRETE length known to symex: caller strings have a fixed
 * length per obligation, strftime/hexify/asprintf outputs are registered when they are produced, literals are
 * scanned (constant content).  With lengths found by scanning symbolic content every formatted write lands at a
 * symbolic index and CBMC runs out of memory.
 */
/* lengths are recovered from the OBJECT SIZE of the string's buffer (constant-folded by symex, unlike pointer comparisons):
 *   literals and the code's own fixed buffers (date[9], datetime[17], hex[65]) hold strings of size-1 characters;
 *   caller strings live in objects of 100+len bytes; formatter outputs in buffers of 428+k bytes with their length in fb_len[k] */
static size_t fb_len[8]; static int reg_over;
static size_t vh_len(const char * p)
{
#ifdef VH_CBMC
	size_t sz = __CPROVER_OBJECT_SIZE(p);
#else
	size_t sz = 0; (void)p;
#endif
	if (sz >= 428) return fb_len[(sz - 428) < 8 ? (sz - 428) : 0];
	if (sz >= 100) return sz - 100;
	return sz - 1;
}
static void reg(const char * p, size_t n) { (void)p; (void)n; }
#define NBUF 6
static char FB0[428], FB1[429], FB2[430], FB3[431], FB4[432], FB5[433]; static int nfb; static int fb_bad;
static char * fb_new(void) { char * t[NBUF] = {FB0, FB1, FB2, FB3, FB4, FB5}; if (nfb >= NBUF) { fb_bad = 1; return FB0; } return t[nfb++]; }
static size_t put_s(char * o, size_t n, const char * s) { size_t l = vh_len(s); for (size_t i = 0; i < l; i++) { if (n < DCAP) o[n] = s[i]; n++; } return n; }
static size_t put_d(char * o, size_t n, int v)
{
	char t[12]; int k = 0; unsigned u = v < 0 ? 0u - (unsigned)v : (unsigned)v;
	if (v < 0) { if (n < DCAP) o[n] = '-'; n++; }
	do { t[k++] = (char)('0' + u % 10); u /= 10; } while (u && k < 11);
	while (k > 0) { k--; if (n < DCAP) o[n] = t[k]; n++; }
	return n;
}
int libcperciva_asprintf(char ** ret, const char * fmt, ...)
{
	va_list ap; char * o = fb_new(); size_t n = 0;
	va_start(ap, fmt);
	for (size_t i = 0; fmt[i] != 0; i++) {
		if (fmt[i] != '%') { if (n < DCAP) o[n] = fmt[i]; n++; continue; }
		i++;
		if (fmt[i] == 's') n = put_s(o, n, va_arg(ap, const char *));
		else if (fmt[i] == 'd') n = put_d(o, n, va_arg(ap, int));
		else if (fmt[i] == '%') { if (n < DCAP) o[n] = '%'; n++; }
		else fb_bad = 1;
	}
	va_end(ap);
	if (n > DCAP) { fb_bad = 1; n = DCAP; }
	o[n] = 0; *ret = o; fb_len[nfb - 1] = n;
	return (int)n;
}
char * vh_strdup(const char * s) { char * o = fb_new(); size_t n = put_s(o, 0, s); if (n > DCAP) n = DCAP; o[n] = 0; fb_len[nfb - 1] = n; return o; }
void vh_free(void * p) { (void)p; }
static int time_calls, time_fail; static time_t T_NOW; static int gm_bad; static struct tm TM;
time_t vh_time(time_t * t) { time_calls++; if (time_fail) return (time_t)-1; if (t) *t = T_NOW; return T_NOW; }
struct tm * vh_gmtime_r(const time_t * t, struct tm * r) { if (*t != T_NOW) gm_bad = 1; *r = TM; return r; }
static void d2(char * o, int v) { o[0] = (char)('0' + (v / 10) % 10); o[1] = (char)('0' + v % 10); }
size_t vh_strftime(char * s, size_t max, const char * f, const struct tm * tm)
{
	int y = tm->tm_year + 1900;
	if (f[0] == '%' && f[1] == 'Y' && f[6] == '\0' && max >= 9) {	/* "%Y%m%d" (no strcmp: its library model does not constant-fold) */ d2(s, y / 100); d2(s + 2, y % 100); d2(s + 4, tm->tm_mon + 1); d2(s + 6, tm->tm_mday); s[8] = 0; reg(s, 8); return 8; }
	if (f[0] == '%' && f[1] == 'Y' && f[6] == 'T' && f[14] == '\0' && max >= 17) {	/* "%Y%m%dT%H%M%SZ" */ d2(s, y / 100); d2(s + 2, y % 100); d2(s + 4, tm->tm_mon + 1); d2(s + 6, tm->tm_mday); s[8] = 'T'; d2(s + 9, tm->tm_hour); d2(s + 11, tm->tm_min); d2(s + 13, tm->tm_sec); s[15] = 'Z'; s[16] = 0; reg(s, 16); return 16; }
	gm_bad = 1; return 0;
}
#define strlen vh_len
#define strdup vh_strdup
#define free vh_free
#define time vh_time
#define gmtime_r vh_gmtime_r
#define strftime vh_strftime
#include "aws_sign.c"
#undef strlen
#undef strdup
#undef free
#undef time
#undef gmtime_r
#undef strftime

/* ---------------- independent reference (plain concatenation, from the published algorithm) ---------------- */
typedef struct { char b[DCAP + 8]; size_t n; } sb;
static void ap_(sb * s, const char * t) { size_t l = vh_len(t); for (size_t i = 0; i < l; i++) { if (s->n < DCAP) s->b[s->n] = t[i]; s->n++; } }
static void apc(sb * s, char c) { if (s->n < DCAP) s->b[s->n] = c; s->n++; }
static void aph(sb * s, const uint8_t * h) { static const char X[] = "0123456789abcdef"; for (int i = 0; i < 32; i++) { apc(s, X[h[i] >> 4]); apc(s, X[h[i] & 15]); } }
static void apd(sb * s, int v) { char t[16]; size_t n = put_d(t, 0, v); for (size_t i = 0; i < n; i++) apc(s, t[i]); }
#ifndef L0
#define L0 1
#define L1 1
#define L2 1
#define L3 1
#define L4 1
#define L5 1
#endif
static char S_id[100 + L0], S_sec[100 + L1], S_reg[100 + L2], S_a[100 + L3], S_b[100 + L4], S_c[100 + L5];
static void ndstr(char * s, size_t n)
{
	static const char AL[8] = {'A', 'z', '0', '9', '-', '.', '_', '~'};	/* URI-unreserved alphabet (the interface does no percent-encoding) */
	for (size_t i = 0; i < n; i++) s[i] = AL[nd_u8() & 7];
	s[n] = 0;
}
static char DATE[9], DT[17];
static void draw(void)
{
	for (int f = 0; f < NCALL; f++) for (int i = 0; i < 32; i++) OUT[f][i] = nd_u8();
	fstar = nd_size(); kstar = nd_size(); dstar = nd_size(); ASSUME(fstar < NCALL && kstar < 64 && dstar < DCAP);
	ndstr(S_id, L0); ndstr(S_sec, L1); ndstr(S_reg, L2); ndstr(S_a, L3); ndstr(S_b, L4); ndstr(S_c, L5);
	T_NOW = 1234567890;	/* a constant: the instant only flows into gmtime_r (whose answer is arbitrary); a symbolic value makes symex also
				 * follow the 'time() == -1' exit, after which every registered length is a merged (symbolic) value */
	TM.tm_year = nd_int_in(70, 8099); TM.tm_mon = nd_int_in(0, 11); TM.tm_mday = nd_int_in(1, 31); TM.tm_hour = nd_int_in(0, 23); TM.tm_min = nd_int_in(0, 59); TM.tm_sec = nd_int_in(0, 60);
#ifdef TIMEFAIL
	time_fail = 1;	/* clock failure is its own obligation: a symbolic outcome here would make every later string length symbolic */
#else
	time_fail = 0;
#endif
	vh_strftime(DATE, 9, "%Y%m%d", &TM); vh_strftime(DT, 17, "%Y%m%dT%H%M%SZ", &TM);
}
/* check of the observed call: expected kind / key / data */
static uint8_t K0[64];
/* key: kidx < 0 => the "AWS4"+secret key in K0, else the output of call kidx */
static void expect_call(size_t k, int is_hmac, int kidx, size_t klen, const sb * data)
{
	if (fstar != k) return;
	CHECK(obs_is_hmac == is_hmac, "SHA-256 vs HMAC-SHA256 at this step");
	if (is_hmac) { CHECK(obs_klen == klen, "HMAC key length"); if (kstar < klen) CHECK(obs_k == (kidx < 0 ? K0[kstar] : OUT[kidx][kstar < 32 ? kstar : 0]), "HMAC key = previous link of the key derivation chain"); }
	CHECK(obs_dlen == data->n, "hashed string: length");
	if (dstar < data->n) CHECK(obs_d == (uint8_t)data->b[dstar], "hashed string: content (canonical request / string to sign / scope element)");
}
static void expect_signing(size_t base, const char * service, const sb * creq)
{
	sb t; size_t k0n;
	/* kDate = HMAC("AWS4" + secret, date); kRegion = HMAC(kDate, region); kService = HMAC(kRegion, service); kSigning = HMAC(kService, "aws4_request") */
	t.n = 0; ap_(&t, "AWS4"); ap_(&t, S_sec); k0n = t.n; for (size_t i = 0; i < 64; i++) K0[i] = (i < k0n) ? (uint8_t)t.b[i] : 0;
	t.n = 0; ap_(&t, DATE); expect_call(base, 1, -1, k0n, &t);
	t.n = 0; ap_(&t, S_reg); expect_call(base + 1, 1, (int)base, 32, &t);
	t.n = 0; ap_(&t, service); expect_call(base + 2, 1, (int)base + 1, 32, &t);
	t.n = 0; ap_(&t, "aws4_request"); expect_call(base + 3, 1, (int)base + 2, 32, &t);
	expect_call(base + 4, 0, -1, 0, creq);
	/* StringToSign */
	t.n = 0; ap_(&t, "AWS4-HMAC-SHA256\n"); ap_(&t, DT); ap_(&t, "\n"); ap_(&t, DATE); ap_(&t, "/"); ap_(&t, S_reg); ap_(&t, "/"); ap_(&t, service); ap_(&t, "/aws4_request\n"); aph(&t, OUT[base + 4]);
	expect_call(base + 5, 1, (int)base + 3, 32, &t);
}
static void same(const char * got, const sb * want, const char * what)
{
	size_t n = vh_len(got);
	CHECK(n == want->n, "returned string: length");
	size_t i = nd_size(); ASSUME(i < DCAP);
	if (i < want->n) CHECK(got[i] == want->b[i], "returned string equals the reference construction");
	(void)what;
}
static uint8_t BODY[4];
/* variants: 0 = S3 headers, 1 = generic service headers, 2 = DynamoDB headers */
void h_headers(void)
{
	char * xsha = NULL, * xdate = NULL, * auth = NULL;
	draw();
	int variant = VARIANT;
	size_t bl = nd_size_le(4); int nobody = nd_bool();
	for (int i = 0; i < 4; i++) BODY[i] = nd_u8();
	int rc = variant == 0 ? aws_sign_s3_headers(S_id, S_sec, S_reg, S_a /* method */, S_b /* bucket */, S_c /* path */, nobody ? NULL : BODY, bl, &xsha, &xdate, &auth)
	    : variant == 1 ? aws_sign_svc_headers(S_id, S_sec, S_reg, S_a /* service */, nobody ? NULL : BODY, bl, &xsha, &xdate, &auth)
	    : aws_sign_dynamodb_headers(S_id, S_sec, S_reg, S_a /* operation */, nobody ? NULL : BODY, bl, &xsha, &xdate, &auth);
	CHECK(!cap_bad && !fb_bad && !gm_bad && !reg_over, "model capacities / only the two date formats / gmtime_r given the sampled instant");
	CHECK((rc == -1) == (time_fail != 0) && (rc == 0 || rc == -1), "fails exactly when the clock fails");
	if (rc == 0) {
		CHECK(time_calls == 1, "one time() sample: date and timestamp come from the same instant");
		CHECK(ncall == 7, "payload hash, four key-derivation HMACs, canonical-request hash, signature");
		/* call 0: SHA-256 of the body (absent body = empty string) */
		sb body; body.n = nobody ? 0 : bl; for (size_t i = 0; i < 4; i++) body.b[i] = (char)BODY[i];
		expect_call(0, 0, -1, 0, &body);
		const char * service = variant == 0 ? "s3" : variant == 1 ? S_a : "dynamodb";
		sb cr; cr.n = 0;
		if (variant == 0) { ap_(&cr, S_a); ap_(&cr, "\n"); ap_(&cr, S_c); ap_(&cr, "\n\nhost:"); ap_(&cr, S_b); ap_(&cr, ".s3.amazonaws.com\n"); }
		else if (variant == 1) { ap_(&cr, "POST\n/\n\nhost:"); ap_(&cr, S_a); ap_(&cr, "."); ap_(&cr, S_reg); ap_(&cr, ".amazonaws.com\n"); }
		else { ap_(&cr, "POST\n/\n\nhost:dynamodb."); ap_(&cr, S_reg); ap_(&cr, ".amazonaws.com\n"); }
		ap_(&cr, "x-amz-content-sha256:"); aph(&cr, OUT[0]); ap_(&cr, "\nx-amz-date:"); ap_(&cr, DT); ap_(&cr, "\n");
		if (variant == 2) { ap_(&cr, "x-amz-target:DynamoDB_20120810."); ap_(&cr, S_a); ap_(&cr, "\n"); }
		ap_(&cr, "\nhost;x-amz-content-sha256;x-amz-date"); if (variant == 2) ap_(&cr, ";x-amz-target"); ap_(&cr, "\n"); aph(&cr, OUT[0]);
		expect_signing(1, service, &cr);
		sb w; w.n = 0; aph(&w, OUT[0]); same(xsha, &w, "content hash");
		w.n = 0; ap_(&w, DT); same(xdate, &w, "timestamp");
		w.n = 0; ap_(&w, "AWS4-HMAC-SHA256 Credential="); ap_(&w, S_id); ap_(&w, "/"); ap_(&w, DATE); ap_(&w, "/"); ap_(&w, S_reg); ap_(&w, "/"); ap_(&w, service);
		ap_(&w, "/aws4_request,SignedHeaders=host;x-amz-content-sha256;x-amz-date"); if (variant == 2) ap_(&w, ";x-amz-target"); ap_(&w, ",Signature="); aph(&w, OUT[6]);
		same(auth, &w, "authorization");
		for (int i = 0; i < 8; i++) CHECK(DATE[i] == xdate[i], "credential-scope date = date part of the returned timestamp");
	}
	REACHED();
}
void h_querystr(void)
{
	draw();
#ifndef EXPIRY
#define EXPIRY 7
#endif
	int expiry = EXPIRY;	/* a constant per obligation: its decimal length must be concrete for symex */
	char * q = aws_sign_s3_querystr(S_id, S_sec, S_reg, S_a /* method */, S_b /* bucket */, S_c /* path */, expiry);
	CHECK(!cap_bad && !fb_bad && !gm_bad, "model capacities");
	CHECK((q == NULL) == (time_fail != 0), "fails exactly when the clock fails");
	if (q != NULL) {
		CHECK(time_calls == 1 && ncall == 6, "one clock sample; four key-derivation HMACs, canonical-request hash, signature");
		sb cr; cr.n = 0;
		ap_(&cr, S_a); ap_(&cr, "\n"); ap_(&cr, S_c); ap_(&cr, "\nX-Amz-Algorithm=AWS4-HMAC-SHA256&X-Amz-Credential="); ap_(&cr, S_id); ap_(&cr, "%2F"); ap_(&cr, DATE); ap_(&cr, "%2F"); ap_(&cr, S_reg);
		ap_(&cr, "%2Fs3%2Faws4_request&X-Amz-Date="); ap_(&cr, DT); ap_(&cr, "&X-Amz-Expires="); apd(&cr, expiry); ap_(&cr, "&X-Amz-SignedHeaders=host\nhost:"); ap_(&cr, S_b);
		ap_(&cr, ".s3.amazonaws.com\n\nhost\nUNSIGNED-PAYLOAD");
		expect_signing(0, "s3", &cr);
		sb w; w.n = 0;
		ap_(&w, "X-Amz-Algorithm=AWS4-HMAC-SHA256&X-Amz-Credential="); ap_(&w, S_id); ap_(&w, "%2F"); ap_(&w, DATE); ap_(&w, "%2F"); ap_(&w, S_reg); ap_(&w, "%2Fs3%2Faws4_request&X-Amz-Date="); ap_(&w, DT);
		ap_(&w, "&X-Amz-Expires="); apd(&w, expiry); ap_(&w, "&X-Amz-SignedHeaders=host&X-Amz-Signature="); aph(&w, OUT[5]);
		same(q, &w, "query string");
	}
	REACHED();
}
