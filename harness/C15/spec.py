def obligations(tier):
    T = tier == "thorough"
    obs = []
    mn = 8 if T else 6
    for ent, nm, rep, what in (("h_leaves", "json-leaves", [], "skip_ws, skip_literal, skip_number, skip_string, match_str"),
                               ("h_array_object", "json-array-object", ["skip_value:stub_value"], "skip_array, skip_object (nested values via the contract stub)"),
                               ("h_value", "json-value", ["skip_array:stub_array", "skip_object:stub_object"], "skip_value (arrays/objects via the contract stubs)"),
                               ("h_find", "json-find", ["skip_value:stub_value"], "json_find (values via the contract stub)")):
      ranges = [(0, mn)] if ent in ("h_leaves", "h_value") else [(0, 3)] + [(k, k) for k in range(4, mn + 1)]
      for lo, hi in ranges:
        obs.append(dict(name=nm + "-memory-safe-n%d-%d" % (lo, hi), harness="h_json.c", entry=ent, defs=["NLO=%d" % lo, "MAXN=%d" % hi], unwind=hi + 3, replace=rep,
                        unwindset=["strchr.0:18"], flags=["--object-bits", "10"], backends=["cadical"], timeout=1800 if T else 280,
                        claim=what + ": on every byte string of every length %d..%d placed in an exact-size heap object, from every start offset: reads only [buf, end), returns a pointer in [buf, end], terminates; callees' preconditions hold (modular induction over the recursion)" % (lo, hi),
                        bounds="%d <= n <= %d bytes, all byte values, keys of <= 2 characters" % (lo, hi), stubs=["strchr/memcmp: CBMC library models"] + ["%s -> contract stub" % r.split(":")[0] for r in rep]))
    # parsers whose exact-size-object harnesses live with C16/C17/C18 (same harness, all pointer/bounds checks on)
    to = 1800 if T else 280
    obs.append(dict(name="b64decode-memory-safe", harness="../C17/codec.c", entry="h_b64decode", defs=["MAXIN=%d" % (12 if T else 8)], unwind=16, unwindset=["strchr.0:67", "b64decode#0:%d" % ((12 if T else 8) + 1), "b64decode#1:4"],
                    timeout=to, claim="b64decode: input object of exactly inlen bytes (every byte value incl. NUL), output object of exactly inlen/4*3 bytes: no access outside either", bounds="inlen <= %d" % (12 if T else 8), stubs=["strchr: CBMC model"]))
    obs.append(dict(name="unhexify-memory-safe", harness="../C17/codec.c", entry="h_unhexify", defs=["MAXLEN=%d" % (5 if T else 3)], unwind=14, unwindset=["strchr.0:67", "unhexify#0:%d" % (2 * (5 if T else 3) + 1), "unhexify#1:%d" % ((5 if T else 3) + 1)],
                    timeout=to, claim="unhexify: 2*len-character buffer or a shorter NUL-terminated string in an exact-size object: never reads past the NUL / the buffer, writes only out[0..len)", bounds="len <= %d" % (5 if T else 3), stubs=["strchr: CBMC model"]))
    obs.append(dict(name="humansize-parse-memory-safe", harness="../C16/hsize.c", entry="h_parse", defs=["MINL=0", "MAXL=4"], unwind=8, flags=["--object-bits", "10"], timeout=to,
                    claim="humansize_parse reads only the NUL-terminated string (exact-size objects, lengths 0..4)", bounds="length <= 4 here; longer in C16", stubs=[]))
    obs.append(dict(name="parsenum-memory-safe", harness="../C16/pnum.c", entry="h_size", defs=["MINL=0", "MAXL=2"], unwind=6, flags=["--object-bits", "10"], timeout=to,
                    claim="PARSENUM_EX into size_t reads only the NUL-terminated string (exact-size objects), over the strto models", bounds="length <= 2 here; longer in C16", stubs=["strtoumax -> model"]))
    obs.append(dict(name="getopt-memory-safe", harness="../C18/h_getopt.c", entry="h_parse", defs=["NARG=2", "SLEN=4"], unwind=12,
                    unwindset=["strlen.0:8", "strcmp.0:8", "strncmp.0:8", "reset.0:3", "searchopt.0:7", "getopt_setrange.0:7"], timeout=to,
                    claim="getopt() on every argv of <= 2 strings of <= 4 characters: no out-of-bounds access, optind within [1, argc], optarg NULL or inside an argv string", bounds="2 x 4", stubs=["atexit"]))
    # socket addresses (sock_util.c / sock.c): decoder with hostile length fields, address-string grammar
    obs.append(dict(name="sockaddr-deserialize", harness="sockaddr.c", entry="h_deser", defs=["DMAX=%d" % (24 if T else 18)], vsrcs=["models/stub_warnp.c"], unwind=30, timeout=to,
                    claim="sock_addr_deserialize on every byte string of every length 0..DMAX in an exact-size object: NULL unless buflen >= 12 and the embedded namelen == buflen-12; then fields decoded, name object exactly namelen bytes, bytes copied in order; no access outside the buffer", bounds="buflen <= %d" % (24 if T else 18), stubs=["warn -> empty"]))
    ml = 8 if T else 6
    for lo, hi in [(0, 4)] + [(k, k) for k in range(5, ml + 1)]:
        obs.append(dict(name="sock-resolve-len%d-%d" % (lo, hi), harness="sockaddr.c", entry="h_resolve", defs=["MINL=%d" % lo, "MAXL=%d" % hi], vsrcs=["models/stub_warnp.c"], replace=["sock_resolve_host:stub_host"],
                    unwind=max(hi + 4, 18), timeout=to, flags=["--object-bits", "10"],
                    claim="sock_resolve on every NUL-terminated string of length %d..%d in an exact-size object: reads only the string, classification '/path' / host / '[literal]:port' as the grammar says, port = strict decimal 1..65535, literal = text between the brackets handed to inet_pton once, sockaddr_in/sockaddr_un contents exact, one-element NULL-terminated list" % (lo, hi),
                    bounds="length %d..%d, all byte values" % (lo, hi), stubs=["inet_pton -> logging contract stub", "sock_resolve_host -> stub (host names are outside the property)", "strdup -> exact-size model", "strtoimax -> model", "warn -> empty"]))
    for ul in (107, 108):
        obs.append(dict(name="sock-resolve-unix-len%d" % ul, harness="sockaddr.c", entry="h_unixlong", defs=["ULEN=%d" % ul], vsrcs=["models/stub_warnp.c"], replace=["sock_resolve_host:stub_host"],
                    unwind=ul + 4, timeout=to, claim="sock_resolve on every Unix path of %d characters (sun_path holds 108 bytes): %s, no write outside the sockaddr_un" % (ul, "accepted, copied with its NUL" if ul < 108 else "rejected"),
                    bounds="length %d" % ul, stubs=["warn -> empty"]))
    for l0, l1 in [(16, 20), (20, 16), (20, 20), (16, 16), (5, 3)]:
        obs.append(dict(name="aws-readkeys-lines-%d-%d" % (l0, l1), harness="rdkeys.c", entry="h_readkeys", defs=["L0=%d" % l0, "L1=%d" % l1, "NLINES=2"], srcs=["util/insecure_memzero.c"], unwind=44, unwindset=["insecure_memzero_func.0:50"], timeout=to, flags=["--memory-leak-check"],
                        claim="aws_readkeys on every 2-line file with lines of %d and %d arbitrary non-NUL bytes: stays inside the line buffer and the strings; 0 only if every line is ACCESS_KEY_(ID|SECRET)=value<EOL> with one of each; file closed exactly once; nothing leaked on failure" % (l0, l1),
                        bounds="2 lines of %d and %d bytes" % (l0, l1), stubs=["fopen/fgets/ferror/fclose -> scripted file", "strdup -> exact-size copy", "strcspn -> C model validated against glibc", "warn -> empty"]))
    for fl in [0, 1, 2, 5]:
        obs.append(dict(name="readpass-file-len%d" % fl, harness="rdpass.c", entry="h_readpass", defs=["FL=%d" % fl], unwind=fl + 4, timeout=to, flags=["--memory-leak-check"],
                        claim="readpass_file on every file of %d arbitrary non-NUL bytes over a scripted stdio: stays inside the 2048-byte buffer; success exactly for a single line (trailing LF / CR LF allowed) with clean read and close; passphrase = the line without its EOL in an exact-size string; the whole buffer is wiped once on every path; file closed once; no leak" % fl,
                        bounds="file length %d" % fl, stubs=["fopen/fgets/fgetc/ferror/fclose -> scripted file (C11 7.21.7 semantics)", "insecure_memzero -> recording stub (its body is checked in C20's other obligations)", "strdup/strcspn -> C models"]))
    return obs
TRUSTED = ["CBMC 6.11 C semantics, pointer/bounds checks", "cadical"]
ASSUMPTIONS = []
EXPLANATION = ""
