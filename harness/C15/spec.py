def obligations(tier):
    T = tier == "thorough"
    obs = []
    mn = 8 if T else 6
    for ent, nm, rep, what in (("h_leaves", "json-leaves", [], "skip_ws, skip_literal, skip_number, skip_string, match_str"),
                               ("h_array_object", "json-array-object", ["skip_value:stub_value"], "skip_array, skip_object (nested values via the contract stub)"),
                               ("h_value", "json-value", ["skip_array:stub_array", "skip_object:stub_object"], "skip_value (arrays/objects via the contract stubs)"),
                               ("h_find", "json-find", ["skip_value:stub_value"], "json_find (values via the contract stub)")):
      ranges = [(0, mn)] if ent in ("h_leaves", "h_value") else [(0, 3)] + [(k, k) for k in range(4, mn + 1)]
      for lo, hi in ranges:
        obs.append(dict(name=nm + "-memory-safe-n%d-%d" % (lo, hi), harness="h_json.c", entry=ent, defs=["NLO=%d" % lo, "MAXN=%d" % hi], unwind=hi + 3, replace=rep,
                        unwindset=["strchr.0:18"], flags=["--object-bits", "10"], backends=["cadical"], timeout=1800 if T else 280,
                        claim=what + ": on every byte string of every length %d..%d placed in an exact-size heap object, from every start offset: reads only [buf, end), returns a pointer in [buf, end], terminates; callees' preconditions hold (modular induction over the recursion)" % (lo, hi),
                        bounds="%d <= n <= %d bytes, all byte values, keys of <= 2 characters" % (lo, hi), stubs=["strchr/memcmp: CBMC library models"] + ["%s -> contract stub" % r.split(":")[0] for r in rep]))
    return obs
TRUSTED = ["CBMC 6.11 C semantics, pointer/bounds checks", "cadical"]
ASSUMPTIONS = []
EXPLANATION = ""
