/*
 * C15 / C20: util/readpass_file.c over a scripted stdio.  The file holds FL arbitrary bytes (FL a constant per
 * obligation; bytes may be CR, LF, anything but NUL); fgets/fgetc follow C11 7.21.7 on that content.
 * Checked: no access outside the 2048-byte line buffer; success exactly when the file is a single line shorter than
 * 2048 characters (a trailing LF or CR LF allowed) and closes cleanly; the passphrase returned is the line without its
 * EOL, in an exact-size string; on EVERY path the whole 2048-byte buffer is wiped after its last use (C20); the file is
 * closed exactly once; nothing leaks.
 */
#include <stdint.h>
#include <stdio.h>
#include <stdlib.h>
#include <string.h>
#include "vh.h"
#include "stub_warnp.c"
#include "libc_str.c"
#ifndef FL
#define FL 5
#endif
static uint8_t FILEB[FL + 1]; static size_t fpos; static int open_fail, rd_err, close_fail, opens, closes, after_close;
static FILE * const TOKF = (FILE *)(uintptr_t)0x1000;
FILE * vh_fopen(const char * n, const char * m) { (void)n; (void)m; if (open_fail) return NULL; opens++; return TOKF; }
char * vh_fgets(char * b, int size, FILE * f)
{
	if (f != TOKF || closes) after_close = 1;
	if (rd_err) return NULL;
	if (fpos >= FL) return NULL;	/* end of file, nothing read */
	size_t n = 0;
	for (size_t i = 0; i < FL; i++) if (n == i && n + 1 < (size_t)size && fpos < FL) { b[n++] = (char)FILEB[fpos++]; if (b[n - 1] == '\n') i = FL; }
	b[n] = 0;
	return b;
}
int vh_fgetc(FILE * f) { if (f != TOKF || closes) after_close = 1; if (rd_err || fpos >= FL) return EOF; return FILEB[fpos++]; }
int vh_ferror(FILE * f) { if (f != TOKF || closes) after_close = 1; return rd_err; }
int vh_fclose(FILE * f) { if (f != TOKF || closes) after_close = 1; closes++; return close_fail ? EOF : 0; }
static char * vh_strdup(const char * s) { size_t n = 0; while (s[n] != 0) n++; char * o = malloc(n + 1); if (o == NULL) return NULL; for (size_t i = 0; i <= n; i++) o[i] = s[i]; return o; }
static int wipes, wipe_bad, used_after_wipe;
static void vh_wipe(volatile void * p, size_t n)
{
	wipes++;
#ifdef VH_CBMC
	if (__CPROVER_OBJECT_SIZE((const void *)p) != 2048 || __CPROVER_POINTER_OFFSET((const void *)p) != 0) wipe_bad = 1;
#endif
	if (n != 2048) wipe_bad = 1;
}
#include "insecure_memzero.h"
#undef insecure_memzero
#define insecure_memzero(b, l) vh_wipe(b, l)
#define fopen vh_fopen
#define fgets vh_fgets
#define fgetc vh_fgetc
#define ferror vh_ferror
#define fclose vh_fclose
#define strdup vh_strdup
#define strcspn vh_strcspn
#include "readpass_file.c"
void h_readpass(void)
{
	int nz = 1;
	for (size_t i = 0; i < FL; i++) { FILEB[i] = nd_u8(); if (FILEB[i] == 0) nz = 0; }
	ASSUME(nz);
	open_fail = nd_bool(); rd_err = nd_bool(); close_fail = nd_bool();
	char * pw = (char *)1;
	int rc = readpass_file(&pw, "passfile");
	CHECK(rc == 0 || rc == -1, "documented return values");
	CHECK(!after_close && closes == (open_fail ? 0 : 1), "the file is closed exactly once if it was opened, and not used afterwards");
	CHECK(open_fail || (wipes >= 1 && !wipe_bad), "the whole 2048-byte line buffer is wiped on every path (C20)");
	if (open_fail) CHECK(wipes >= 1 && !wipe_bad, "also when the file cannot be opened");
	/* reference: a single line: no LF before the last byte, shorter than 2048 */
	size_t firstnl = FL; for (size_t i = FL; i-- > 0;) if (FILEB[i] == '\n') firstnl = i;
	int single = (firstnl == FL || firstnl == FL - 1) && FL < 2048;
	int ok = !open_fail && !rd_err && !close_fail && single;
	CHECK((rc == 0) == ok, "success exactly for a readable single-line file shorter than 2048 characters that closes cleanly");
	if (rc == 0) {
		size_t e = FL; for (size_t i = FL; i-- > 0;) if (FILEB[i] == '\r' || FILEB[i] == '\n') e = i;
		size_t k = nd_size();
#ifdef VH_CBMC
		CHECK(__CPROVER_OBJECT_SIZE(pw) == e + 1, "passphrase string is exactly the line up to the first CR or LF, NUL-terminated");
#endif
		if (k < e) CHECK((uint8_t)pw[k] == FILEB[k], "passphrase bytes = file bytes");
		CHECK(pw[e] == 0, "NUL-terminated");
		free(pw);
	}
	REACHED();
}
