/*
 * C15 / C17: socket addresses.
 *   h_deser     sock_addr_deserialize on every byte string of every length 0..DMAX in an exact-size object
 *               (hostile length fields): accepts exactly the consistent encodings, copies exactly namelen bytes.
 *   h_roundtrip serialize -> deserialize, dup, cmp for name lengths from NAMELENS, arbitrary contents.
 *   h_resolve   sock_resolve on every NUL-terminated string of length MINL..MAXL in an exact-size object against
 *               an independent reading of the address grammar ("/path", "[v4]:port", "[v6]:port"); host names
 *               (anything not starting with '/' or '[') go to the system resolver and are cut (stub_host).
 *   h_unixlong  Unix paths of length 106..109 (the sun_path limit is 108 including the NUL).
 *   h_pretty    sock_addr_prettyprint of an IPv4/IPv6/Unix address resolves back to the same address.
 * Models: inet_pton / inet_ntop = logging contract stubs (the numeric-literal grammar is libc's, not /repo's);
 * strdup = exact-size copy whose length comes from the object size (a harness-soundness CHECK verifies it);
 * asprintf = mini formatter for %s %d (the real util/asprintf.c has its own obligation under C14);
 * strtoimax = models/libc_strto.c.  Logging is stubbed (models/stub_warnp.c).
 */
#include <sys/socket.h>
#include <sys/un.h>
#include <netinet/in.h>
#include <arpa/inet.h>
#include <ctype.h>
#include <errno.h>
#include <inttypes.h>
#include <stdarg.h>
#include <stdint.h>
#include <stdlib.h>
#include <string.h>
#include "vh.h"
#include "libc_strto.c"

#ifndef MAXL
#define MAXL 6
#endif
#ifndef MINL
#define MINL 0
#endif
#ifndef DMAX
#define DMAX 18
#endif
#define PCAP 48

/* ---- models ---- */
static size_t sd_hint = (size_t)-1; static int sd_bad;
static char * vh_strdup(const char * s)
{
	size_t m;
#ifdef VH_CBMC
	m = (sd_hint != (size_t)-1) ? sd_hint : __CPROVER_OBJECT_SIZE(s) - __CPROVER_POINTER_OFFSET(s) - 1;
#else
	m = strlen(s);
#endif
	char * o = malloc(m + 1);
	if (o == NULL) return NULL;
	for (size_t i = 0; i < m; i++) { o[i] = s[i]; if (s[i] == 0) sd_bad = 1; }
	if (s[m] != 0) sd_bad = 1;
	o[m] = 0;
	return o;
}
static int pt_calls, pt_af, pt_ret; static char pt_str[PCAP]; static size_t pt_len; static uint8_t pt_out[16];
static int vh_inet_pton(int af, const char * src, void * dst)
{
	size_t l = 0;
	while (src[l] != 0) { if (l < PCAP) pt_str[l] = src[l]; l++; }	/* reads the NUL-terminated string, nothing else */
	pt_len = l; pt_af = af; pt_calls++;
	if (pt_ret == 1) memcpy(dst, pt_out, af == AF_INET ? 4 : 16);
	return pt_ret;
}
static int nt_calls, nt_af, nt_fail; static uint8_t nt_in[16]; static char nt_str[PCAP]; static size_t nt_len;
static const char * vh_inet_ntop(int af, const void * src, char * dst, socklen_t size)
{
	nt_calls++; nt_af = af;
	memcpy(nt_in, src, af == AF_INET ? 4 : 16);
	if (nt_fail || nt_len + 1 > size) return NULL;
	for (size_t i = 0; i < nt_len; i++) dst[i] = nt_str[i];
	dst[nt_len] = 0;
	return dst;
}
static int fmt_bad;
#define FCAP 64
/* %d with the number of digits fixed by the harness (fmt_digits): the formatted length stays a constant for symex;
 * fmt_bad is raised if the value does not have exactly that many digits (the harness assumes it does and checks) */
static int fmt_digits = 1; static size_t fmt_slen;	/* %s: length of the argument, fixed by the harness and verified */
static size_t put_d(char * o, size_t n, int v)
{
	unsigned u = (unsigned)v, p10 = 1;
	if (v < 0) fmt_bad = 1;
	for (int k = 1; k < fmt_digits; k++) p10 *= 10;
	if (u < (fmt_digits > 1 ? p10 : 0) || u / p10 > 9) fmt_bad = 1;
	for (int k = 0; k < fmt_digits; k++) { if (n < FCAP) o[n] = (char)('0' + (u / p10) % 10); n++; p10 /= 10; }
	return n;
}
int libcperciva_asprintf(char ** ret, const char * fmt, ...)
{
	va_list ap; char t[FCAP + 1]; size_t n = 0;
	va_start(ap, fmt);
	for (size_t i = 0; fmt[i] != 0; i++) {
		if (fmt[i] != '%') { if (n < FCAP) t[n] = fmt[i]; n++; continue; }
		i++;
		if (fmt[i] == 's') { const char * s = va_arg(ap, const char *); for (size_t j = 0; j < fmt_slen; j++) { if (s[j] == 0) fmt_bad = 1; if (n < FCAP) t[n] = s[j]; n++; } if (s[fmt_slen] != 0) fmt_bad = 1; }
		else if (fmt[i] == 'd') {
#ifdef VH_CBMC
			n = put_d(t, n, (int)va_arg(ap, uint16_t));	/* the only %d here prints ntohs(port), a uint16_t; CBMC passes variadic arguments unpromoted */
#else
			n = put_d(t, n, va_arg(ap, int));
#endif
		}
		else fmt_bad = 1;
	}
	va_end(ap);
	if (n > FCAP) { fmt_bad = 1; n = FCAP; }
	char * o = malloc(n + 1);
	if (o == NULL) return -1;
	for (size_t i = 0; i < n; i++) o[i] = t[i];
	o[n] = 0; *ret = o;
	return (int)n;
}
struct sock_addr; struct sock_addr ** stub_resolve(const char *);	/* forward declaration for the native replay (calls are rebound textually there) */
static int host_calls; static struct sock_addr * HOSTRES[1];
struct sock_addr ** stub_host(const char * addr, const char * ports)
{
	size_t l = 0; while (addr[l] != 0) l++;	/* both arguments must be NUL-terminated strings inside their objects */
	l = 0; while (ports[l] != 0) l++;
	host_calls++;
	return HOSTRES;
}

#undef isspace
#define isspace(c) vhs_space((unsigned char)(c))
#define strtoumax vh_strtoumax
#define strtoimax vh_strtoimax
#define strdup vh_strdup
#define inet_pton vh_inet_pton
#define inet_ntop vh_inet_ntop
#include "sock_util.c"
#include "sock.c"
#undef strdup
#undef inet_pton
#undef inet_ntop

/* ---- h_deser ---- */
void h_deser(void)
{
	const size_t H = 2 * sizeof(int) + sizeof(socklen_t);
	for (size_t n = 0; n <= DMAX; n++) {
		uint8_t * B = malloc(n);
		if (B == NULL) continue;
		for (size_t i = 0; i < n; i++) B[i] = nd_u8();
		struct sock_addr * sa = sock_addr_deserialize(B, n);
		int fam = 0, st = 0; socklen_t nl = 0; int ok = 0;
		if (n >= H) { memcpy(&fam, B, sizeof(int)); memcpy(&st, B + sizeof(int), sizeof(int)); memcpy(&nl, B + 2 * sizeof(int), sizeof(socklen_t)); ok = ((uint64_t)nl == (uint64_t)(n - H)); }
		if (!ok) CHECK(sa == NULL, "inconsistent or truncated encoding => NULL");
		else {
			CHECK(sa != NULL, "consistent encoding => accepted");
			if (sa != NULL) {
				CHECK(sa->ai_family == fam && sa->ai_socktype == st && sa->namelen == nl, "fields decoded");
#ifdef VH_CBMC
				CHECK(__CPROVER_OBJECT_SIZE(sa->name) == n - H, "name object is exactly namelen bytes");
#endif
				size_t k = nd_size();
				if (k < n - H) CHECK(((uint8_t *)sa->name)[k] == B[H + k], "name bytes copied in order");
				if (n == DMAX) REACHED();
				sock_addr_free(sa);
			}
		}
		free(B);
	}
}

/* ---- h_roundtrip ---- */
#ifndef NAMELEN
#define NAMELEN 16
#endif
static struct sock_addr * mk(size_t nl)
{
	struct sock_addr * sa = malloc(sizeof(*sa));
	if (sa == NULL) return NULL;
	sa->ai_family = nd_int(); sa->ai_socktype = nd_int(); sa->namelen = (socklen_t)nl;
	sa->name = malloc(nl);
	if (sa->name == NULL && nl != 0) { free(sa); return NULL; }
	for (size_t i = 0; i < nl; i++) ((uint8_t *)sa->name)[i] = nd_u8();
	return sa;
}
void h_roundtrip(void)
{
	const size_t H = 2 * sizeof(int) + sizeof(socklen_t);
	struct sock_addr * sa = mk(NAMELEN), * sb = NULL, * sc = NULL, * sd = NULL;
	ASSUME(sa != NULL);
	uint8_t * buf = NULL; size_t buflen = 0;
	int rc = sock_addr_serialize(sa, &buf, &buflen);
#ifndef MMF
	CHECK(rc == 0, "serialize succeeds when allocation does");
#endif
	CHECK(rc == 0 || rc == -1, "documented return values");
	if (rc != 0) goto out;
	CHECK(buflen == H + NAMELEN, "serialised length = header + namelen");
#ifdef VH_CBMC
	CHECK(__CPROVER_OBJECT_SIZE(buf) == buflen, "buffer is exactly buflen bytes");
#endif
	sb = sock_addr_deserialize(buf, buflen);
#ifndef MMF
	CHECK(sb != NULL, "deserialize accepts what serialize produced");
#endif
	size_t k = nd_size(); ASSUME(k < NAMELEN + 1);
	if (sb != NULL) {
		CHECK(sb->ai_family == sa->ai_family && sb->ai_socktype == sa->ai_socktype && sb->namelen == sa->namelen, "round trip: fields");
		if (k < NAMELEN) CHECK(((uint8_t *)sb->name)[k] == ((uint8_t *)sa->name)[k], "round trip: name bytes");
		CHECK(sock_addr_cmp(sa, sb) == 0, "round trip compares equal");
	}
	sc = sock_addr_dup(sa);
#ifndef MMF
	CHECK(sc != NULL, "dup succeeds when allocation does");
#endif
	if (sc != NULL) {
		CHECK(sc->ai_family == sa->ai_family && sc->ai_socktype == sa->ai_socktype && sc->namelen == sa->namelen && sc->name != sa->name, "dup: fields, fresh name object");
		if (k < NAMELEN) CHECK(((uint8_t *)sc->name)[k] == ((uint8_t *)sa->name)[k], "dup: name bytes");
		CHECK(sock_addr_cmp(sa, sc) == 0, "dup compares equal");
	}
	/* cmp against an arbitrary other address of the same or another length */
	size_t nl2 = nd_bool() ? NAMELEN : (NAMELEN ? NAMELEN - 1 : 1);
	sd = mk(nl2);
	ASSUME(sd != NULL);
	int same = sd->ai_family == sa->ai_family && sd->ai_socktype == sa->ai_socktype && nl2 == NAMELEN;
	int diffbyte = 0;
	if (nl2 == NAMELEN) for (size_t i = 0; i < NAMELEN; i++) if (((uint8_t *)sd->name)[i] != ((uint8_t *)sa->name)[i]) diffbyte = 1;
	CHECK((sock_addr_cmp(sa, sd) != 0) == !(same && !diffbyte), "cmp is non-zero iff family, type, length or a name byte differs");
	REACHED();
out:
	sock_addr_free(sa); sock_addr_free(sb); sock_addr_free(sc); sock_addr_free(sd); free(buf);	/* with --memory-leak-check: failed calls leave nothing behind */
}

/* ---- reference for the address grammar ---- */
static int ref_port(const uint8_t * s, size_t i, size_t n, long * out)
{
	/* PARSENUM_EX(&p, ports, 1, 65535, 10, 0): strtoimax syntax (white space, sign, decimal digits), no trailing characters */
	uint64_t v = 0; int neg = 0; size_t nd = 0;
	while (i < n && (s[i] == ' ' || (s[i] >= '\t' && s[i] <= '\r'))) i++;
	if (i < n && (s[i] == '+' || s[i] == '-')) { neg = s[i] == '-'; i++; }
	while (i < n && s[i] >= '0' && s[i] <= '9') { v = v * 10 + (uint64_t)(s[i] - '0'); if (v > 1000000) v = 1000000; i++; nd++; }
	if (nd == 0 || i != n || neg || v < 1 || v > 65535) return 0;
	*out = (long)v; return 1;
}
static void check_one(struct sock_addr ** res, int fam, size_t namelen)
{
	CHECK(res != NULL, "valid address => resolved");
	if (res == NULL) return;
	CHECK(res[0] != NULL && res[1] == NULL, "exactly one address, NULL-terminated list");
	if (res[0] == NULL) return;
	CHECK(res[0]->ai_family == fam && res[0]->ai_socktype == SOCK_STREAM && res[0]->namelen == namelen, "family, stream type, name length");
#ifdef VH_CBMC
	CHECK(__CPROVER_OBJECT_SIZE(res[0]->name) == namelen, "name object has the sockaddr's size");
#endif
}
static void run_resolve(uint8_t * S, size_t n)
{
	pt_calls = 0; host_calls = 0; pt_ret = nd_int_in(-1, 1); sd_bad = 0;
	for (int i = 0; i < 16; i++) pt_out[i] = nd_u8();
	size_t k = nd_size();	/* observed byte */
	struct sock_addr ** res = sock_resolve((const char *)S);
	CHECK(!sd_bad, "harness: strdup model saw the string length it assumed");
	if (n >= 1 && S[0] == '/') {
		CHECK(pt_calls == 0 && host_calls == 0, "Unix path: no numeric parsing");
		if (n >= sizeof(((struct sockaddr_un *)0)->sun_path)) { CHECK(res == NULL, "over-long path rejected"); return; }
		check_one(res, AF_UNIX, sizeof(struct sockaddr_un));
		if (res && res[0]) {
			struct sockaddr_un * u = (struct sockaddr_un *)res[0]->name;
			CHECK(u->sun_family == AF_UNIX, "sun_family");
			if (k < sizeof(u->sun_path)) CHECK((uint8_t)u->sun_path[k] == (k < n ? S[k] : 0), "sun_path = the path, NUL-padded");
			sock_addr_freelist(res);
		}
		return;
	}
	size_t c = n; for (size_t i = 0; i < n; i++) if (S[i] == ':') c = i;
	if (c == n) { CHECK(res == NULL && pt_calls == 0 && host_calls == 0, "no ':' => rejected"); return; }
	if (c == 0 || S[0] != '[') { CHECK(host_calls == 1 && pt_calls == 0 && res == HOSTRES, "not '/' or '[': handed to the host resolver, result passed through"); return; }
	CHECK(host_calls == 0, "bracketed form never reaches the host resolver");
	long p = 0;
	if (S[c - 1] != ']' || !ref_port(S, c + 1, n, &p)) { CHECK(res == NULL && pt_calls == 0, "missing ']' or bad port => rejected before any address parsing"); return; }
	/* ips = S[1 .. c-1) */
	int v6 = 0; for (size_t i = 1; i + 1 < c; i++) if (S[i] == ':') v6 = 1;	/* cannot happen (c is the last ':') -- kept for the reference's independence */
	CHECK(pt_calls == 1, "address literal parsed exactly once");
	CHECK(pt_af == (v6 ? AF_INET6 : AF_INET), "family chosen by the presence of ':' inside the brackets");
	CHECK(pt_len == c - 2, "literal = the text between the brackets: length");
	if (k < c - 2 && k < PCAP) CHECK((uint8_t)pt_str[k] == S[1 + k], "literal = the text between the brackets: content");
	if (pt_ret != 1) { CHECK(res == NULL, "literal refused by inet_pton => rejected"); return; }
	if (!v6) {
		check_one(res, AF_INET, sizeof(struct sockaddr_in));
		if (res && res[0]) {
			struct sockaddr_in e; memset(&e, 0, sizeof(e)); e.sin_family = AF_INET; e.sin_port = htons((uint16_t)p); memcpy(&e.sin_addr, pt_out, 4);
			if (k < sizeof(e)) CHECK(((uint8_t *)res[0]->name)[k] == ((uint8_t *)&e)[k], "sockaddr_in = {AF_INET, htons(port), parsed address, zeros}");
			sock_addr_freelist(res);
		}
	}
}
void h_resolve(void)
{
	for (size_t n = MINL; n <= MAXL; n++) {
		uint8_t * S = malloc(n + 1);
		if (S == NULL) continue;
		int nonul = 1;
		for (size_t i = 0; i < n; i++) { S[i] = nd_u8(); if (S[i] == 0) nonul = 0; }
		S[n] = 0;
		if (nonul) { run_resolve(S, n); if (n == MAXL) REACHED(); }
		free(S);
	}
}
#ifndef ULEN
#define ULEN 108
#endif
void h_unixlong(void)
{
	uint8_t * S = malloc(ULEN + 1);
	if (S == NULL) return;
	int nonul = 1;
	S[0] = '/';
	for (size_t i = 1; i < ULEN; i++) { S[i] = nd_u8(); if (S[i] == 0) nonul = 0; }
	S[ULEN] = 0;
	if (nonul) { run_resolve(S, ULEN); REACHED(); }
	free(S);
}

/* ---- h_v6: "[..:..]:port" needs >= 2 colons; the last one separates the port ---- */
void h_v6(void)
{
	for (size_t n = MINL; n <= MAXL; n++) {
		uint8_t * S = malloc(n + 1);
		if (S == NULL) continue;
		int nonul = 1;
		for (size_t i = 0; i < n; i++) { S[i] = nd_u8(); if (S[i] == 0) nonul = 0; }
		S[n] = 0;
		if (nonul) {
			pt_calls = 0; host_calls = 0; pt_ret = 1; sd_bad = 0;
			for (int i = 0; i < 16; i++) pt_out[i] = nd_u8();
			size_t k = nd_size();
			size_t c = n; for (size_t i = 0; i < n; i++) if (S[i] == ':') c = i;
			long p = 0; int v6 = 0;
			int wf = n >= 5 && S[0] == '[' && c != n && c >= 2 && S[c - 1] == ']' && ref_port(S, c + 1, n, &p);
			if (wf) for (size_t i = 1; i + 1 < c; i++) if (S[i] == ':') v6 = 1;
			if (wf && v6) {
				struct sock_addr ** res = sock_resolve((const char *)S);
				CHECK(!sd_bad, "harness: strdup model saw the string length it assumed");
				CHECK(pt_calls == 1 && pt_af == AF_INET6 && pt_len == c - 2, "IPv6 literal = the text between the brackets, parsed once as AF_INET6");
				if (k < c - 2 && k < PCAP) CHECK((uint8_t)pt_str[k] == S[1 + k], "IPv6 literal content");
				check_one(res, AF_INET6, sizeof(struct sockaddr_in6));
				if (res && res[0]) {
					struct sockaddr_in6 e; memset(&e, 0, sizeof(e)); e.sin6_family = AF_INET6; e.sin6_port = htons((uint16_t)p); memcpy(&e.sin6_addr, pt_out, 16);
					if (k < sizeof(e)) CHECK(((uint8_t *)res[0]->name)[k] == ((uint8_t *)&e)[k], "sockaddr_in6 = {AF_INET6, htons(port), flow 0, parsed address, scope 0}");
					sock_addr_freelist(res);
				}
				if (n == MAXL) REACHED();
			}
		}
		free(S);
	}
}

/* ---- h_pretty: printing then resolving gives the same address back ---- */
#ifndef NTLEN
#define NTLEN 7
#endif
#ifndef FAM
#define FAM 4
#endif
#ifndef PDIG
#define PDIG 2
#endif
void h_pretty(void)
{
	struct sock_addr sa; sa.ai_socktype = SOCK_STREAM;
	size_t k = nd_size();
#if FAM != 1
	uint16_t port = nd_u16();	/* host order; exactly PDIG decimal digits, 1..65535 */
	{ unsigned lo = 1; for (int q = 1; q < PDIG; q++) lo *= 10; ASSUME(port >= lo && (PDIG == 5 || port < lo * 10)); }
	fmt_digits = PDIG; fmt_slen = NTLEN;
#endif
#if FAM == 4
	struct sockaddr_in a; memset(&a, 0, sizeof(a)); a.sin_family = AF_INET; a.sin_port = htons(port); for (int i = 0; i < 4; i++) ((uint8_t *)&a.sin_addr)[i] = nd_u8();
	sa.ai_family = AF_INET; sa.name = (struct sockaddr *)&a; sa.namelen = sizeof(a);
	const size_t AL = 4, NL = sizeof(a), SL = 1 + NTLEN + 2 + PDIG;
#elif FAM == 6
	struct sockaddr_in6 a; memset(&a, 0, sizeof(a)); a.sin6_family = AF_INET6; a.sin6_port = htons(port); for (int i = 0; i < 16; i++) ((uint8_t *)&a.sin6_addr)[i] = nd_u8();
	sa.ai_family = AF_INET6; sa.name = (struct sockaddr *)&a; sa.namelen = sizeof(a);
	const size_t AL = 16, NL = sizeof(a), SL = 1 + NTLEN + 2 + PDIG;
#else
	struct sockaddr_un a; memset(&a, 0, sizeof(a)); a.sun_family = AF_UNIX; a.sun_path[0] = '/';
	int nz = 1;
	for (size_t i = 1; i < NTLEN; i++) { a.sun_path[i] = (char)nd_u8(); if (a.sun_path[i] == 0) nz = 0; }
	ASSUME(nz);
	sa.ai_family = AF_UNIX; sa.name = (struct sockaddr *)&a; sa.namelen = sizeof(a);
	sd_hint = NTLEN;
	const size_t NL = sizeof(a), SL = NTLEN;
#endif
#if FAM != 1
	/* inet_ntop contract: a string of NTLEN characters from the literal alphabet (IPv6: with at least one ':'), which inet_pton maps back to the same bytes */
	nt_len = NTLEN; int colon = 0, alpha = 1;
	for (size_t i = 0; i < NTLEN; i++) {
		uint8_t ch = nd_u8();
		if (!((ch >= '0' && ch <= '9') || ch == '.' || (FAM == 6 && ((ch >= 'a' && ch <= 'f') || ch == ':')))) alpha = 0;
		if (ch == ':') colon = 1;
		nt_str[i] = (char)ch;
	}
	ASSUME(alpha && (FAM == 4 || colon));
#endif
	char * s = sock_addr_prettyprint(&sa);
	CHECK(s != NULL, "printable address => string");
	if (s == NULL) return;
	CHECK(!fmt_bad && !sd_bad, "harness: formatter / strdup models saw the lengths they were told");
#ifdef VH_CBMC
	CHECK(__CPROVER_OBJECT_SIZE(s) == SL + 1, "printed string is an exact-size object");
#endif
	CHECK(s[SL] == 0, "printed string has the expected length");
#if FAM != 1
	CHECK(nt_calls == 1 && nt_af == (FAM == 4 ? AF_INET : AF_INET6), "inet_ntop called once with the address's family");
	if (k < AL) CHECK(nt_in[k] == ((uint8_t *)&a)[(FAM == 4 ? 4 : 8) + k], "inet_ntop given the address bytes");
	/* inet_pton is the inverse of inet_ntop on its output */
	pt_ret = 1; for (size_t i = 0; i < AL; i++) pt_out[i] = nt_in[i];
#endif
	sd_hint = SL; sd_bad = 0;
	struct sock_addr ** res = sock_resolve(s);
	CHECK(!sd_bad, "harness: strdup model saw the string length it assumed");
	CHECK(res != NULL && res[0] != NULL && res[1] == NULL, "printed address resolves to exactly one address");
	if (res == NULL || res[0] == NULL) return;
#if FAM != 1
	CHECK(pt_calls == 1 && pt_len == NTLEN, "resolver parses exactly the literal that was printed");
	if (k < NTLEN) CHECK(pt_str[k] == nt_str[k], "resolver parses exactly the literal that was printed: content");
#endif
	CHECK(res[0]->ai_family == sa.ai_family && res[0]->ai_socktype == SOCK_STREAM && res[0]->namelen == NL, "same family, type, length");
	if (k < NL) CHECK(((uint8_t *)res[0]->name)[k] == ((uint8_t *)&a)[k], "same sockaddr bytes");
	CHECK(sock_addr_cmp(res[0], &sa) == 0, "compares equal to the original");
	REACHED();
	sock_addr_freelist(res); free(s);
}

/* ---- h_duplist: sock_addr_duplist copies the list element by element, in order, NULL-terminated ---- */
#ifndef NLIST
#define NLIST 2
#endif
void h_duplist(void)
{
	struct sock_addr * l[NLIST + 1];
	for (int i = 0; i < NLIST; i++) { l[i] = mk(NAMELEN); ASSUME(l[i] != NULL); }
	l[NLIST] = NULL;
	struct sock_addr ** d = sock_addr_duplist(l);
#ifndef MMF
	CHECK(d != NULL, "duplist succeeds when allocation does");
#endif
	if (d != NULL) {
		for (int i = 0; i < NLIST; i++) {
			CHECK(d[i] != NULL && d[i] != l[i] && sock_addr_cmp(d[i], l[i]) == 0, "element i is a fresh copy of element i");
			if (d[i] == NULL) break;
		}
		CHECK(d[NLIST] == NULL, "NULL-terminated, same length");
		sock_addr_freelist(d);
	}
	for (int i = 0; i < NLIST; i++) sock_addr_free(l[i]);	/* --memory-leak-check: a failed duplist leaves nothing behind */
	REACHED();
}

/* ---- h_resolve_one: first address of the resolver's list, the rest released ---- */
#ifndef NRES
#define NRES 2
#endif
static struct sock_addr * RES[3]; static int res_mode;
struct sock_addr ** stub_resolve(const char * addr)
{
	(void)addr;
	if (res_mode == 0) return NULL;
	struct sock_addr ** sas = malloc((NRES + 1) * sizeof(*sas)); ASSUME(sas != NULL);
	for (int i = 0; i < NRES; i++) { RES[i] = mk(4); ASSUME(RES[i] != NULL); sas[i] = RES[i]; }
	sas[NRES] = NULL;
	return sas;
}
void h_resolve_one(void)
{
	static char A[] = "[1.2.3.4]:80";
	res_mode = nd_bool();
	struct sock_addr * sa = sock_resolve_one(A, 0);
	if (res_mode == 0 || NRES == 0) CHECK(sa == NULL, "no address => NULL");
	else { CHECK(sa == RES[0], "the first address of the list is returned"); sock_addr_free(sa); }
	REACHED();	/* --memory-leak-check: the list and every other address were released */
}

/* ---- h_ensure_port ---- */
void h_ensure_port(void)
{
	for (size_t n = MINL; n <= MAXL; n++) {
		char * S = malloc(n + 1);
		if (S == NULL) continue;
		int nonul = 1;
		for (size_t i = 0; i < n; i++) { S[i] = (char)nd_u8(); if (S[i] == 0) nonul = 0; }
		S[n] = 0;
		if (nonul) {
			fmt_slen = n; fmt_bad = 0; sd_bad = 0; sd_hint = (size_t)-1;
			char * r = sock_addr_ensure_port(S);
			CHECK(r != NULL && !fmt_bad && !sd_bad, "a string is returned (harness: models saw the lengths they assumed)");
			if (r != NULL) {
				/* reference: the rightmost ':' is a port separator unless the text is bracketed and the bracket does not close right before it */
				size_t c = n; for (size_t i = 0; i < n; i++) if (S[i] == ':') c = i;
				int hasport = (n > 0 && c == 0) || (n > 0 && S[0] == '/') || (n > 0 && S[0] != '[' && c != n) || (n > 0 && S[0] == '[' && c != n && S[c - 1] == ']') ;
				if (n == 0) hasport = 0;
				size_t want = hasport ? n : n + 2, k = nd_size();
#ifdef VH_CBMC
				CHECK(__CPROVER_OBJECT_SIZE(r) == want + 1, "result is the address, with \":0\" appended iff it had no port and is not a Unix path");
#endif
				if (k < n) CHECK(r[k] == S[k], "the address text is kept");
				if (!hasport) CHECK(r[n] == ':' && r[n + 1] == '0' && r[n + 2] == 0, "\":0\" appended");
				else CHECK(r[n] == 0, "nothing appended");
				free(r);
			}
			if (n == MAXL) REACHED();
		}
		free(S);
	}
}
