/*
 * C15: util/json.c stays inside [buf, end) -- decided MODULARLY over the mutual recursion
 * skip_value <-> skip_array/skip_object (unrolled, the recursion makes symex explode: no answer in 300 s at 6 bytes).
 * Contract C(f): called with buf <= end (buf < end for the functions that step over an opening character),
 * f reads only [buf, end) and returns r with buf <= r <= end.
 *   leaves (skip_ws, skip_literal, skip_string, skip_number, match_str): C proved on the real code
 *   skip_array / skip_object : real code, skip_value rebound to a stub that CHECKS C's precondition and returns any r allowed by C
 *   skip_value               : real code, skip_array/skip_object rebound likewise (+ they are entered only at '[' / '{')
 *   json_find                : real code, skip_value rebound likewise
 * By induction on the recursion depth every call satisfies C.  Inputs: every byte string of every length 0..MAXN in
 * an exact-size heap object (lengths enumerated by the harness loop, bytes symbolic).
 */
#include <stdint.h>
#include <stdlib.h>
#include <string.h>
#include "vh.h"
#include "json.c"
#ifndef MAXN
#define MAXN 7
#endif
#ifndef NLO
#define NLO 0
#endif
static int pre_bad;
static const uint8_t * any_in(const uint8_t * lo, const uint8_t * end)
{
	size_t k = nd_size();
	size_t room = (size_t)(end - lo);
	return lo + (room ? k % (room + 1) : 0);
}
const uint8_t * stub_value(const uint8_t * buf, const uint8_t * end) { if (!(buf <= end)) { pre_bad = 1; return end; } return any_in(buf, end); }
const uint8_t * stub_array(const uint8_t * buf, const uint8_t * end) { if (!(buf < end) || buf[0] != '[') { pre_bad = 1; return end; } return any_in(buf + 1, end); }
const uint8_t * stub_object(const uint8_t * buf, const uint8_t * end) { if (!(buf < end) || buf[0] != '{') { pre_bad = 1; return end; } return any_in(buf + 1, end); }

#define FOR_ALL_BUFFERS(body) \
	for (size_t n = NLO; n <= MAXN; n++) { \
		uint8_t * base = malloc(n); \
		if (n > 0 && base == NULL) continue; \
		for (size_t i = 0; i < n; i++) base[i] = nd_u8(); \
		const uint8_t * end = base + n; \
		size_t off = nd_size(); off = n ? off % (n + 1) : 0; \
		const uint8_t * buf = base + off; \
		body; \
		free(base); \
	}
#define IN_RANGE(r) CHECK((r) >= buf && (r) <= end, "result in [buf, end]")

void h_leaves(void)
{
	FOR_ALL_BUFFERS({
		const uint8_t * r;
		r = skip_ws(buf, end); IN_RANGE(r);
		r = skip_literal(buf, end); IN_RANGE(r);
		r = skip_number(buf, end); IN_RANGE(r);
		if (buf < end) { r = skip_string(buf, end); IN_RANGE(r); }
		char key[3]; int found = 7;
		key[0] = (char)nd_u8(); key[1] = (char)nd_u8(); key[2] = 0;
		r = match_str(buf, end, key, &found); IN_RANGE(r);
		CHECK(found == 0 || found == 1, "foundit is a boolean");
	});
	REACHED();
}
void h_array_object(void)
{
	FOR_ALL_BUFFERS({
		const uint8_t * r;
		if (buf < end) { r = skip_array(buf, end); IN_RANGE(r); r = skip_object(buf, end); IN_RANGE(r); }
		CHECK(!pre_bad, "every nested skip_value call satisfies the contract precondition");
	});
	REACHED();
}
void h_value(void)
{
	FOR_ALL_BUFFERS({
		const uint8_t * r = skip_value(buf, end); IN_RANGE(r);
		CHECK(!pre_bad, "skip_array/skip_object entered only at '[' / '{' with buf < end");
	});
	REACHED();
}
void h_find(void)
{
	FOR_ALL_BUFFERS({
		char key[3];
		key[0] = (char)nd_u8(); key[1] = (char)nd_u8(); key[2] = 0;
		const uint8_t * r = json_find(buf, end, key); IN_RANGE(r);
		CHECK(!pre_bad, "skip_value called within the buffer");
	});
	REACHED();
}
