/*
 * C15 / C20: aws/aws_readkeys.c over a scripted stdio: the file is NLINES lines of L0 / L1 arbitrary non-NUL bytes
 * (which may or may not contain '=', CR, LF, the key names ...), the last one possibly without EOL.
 * Checked: no access outside the 1024-byte line buffer or the strings (CBMC bounds checks); 0 is returned only when
 * both keys were present exactly once and every line was NAME=value with a known name; the strings returned are the
 * values; on every failure path nothing is returned allocated (--memory-leak-check), the file is closed exactly once,
 * and a secret that had been read is zeroed before it is released (C20).
 */
#include <stdint.h>
#include <stdio.h>
#include <stdlib.h>
#include <string.h>
#include "vh.h"
#include "stub_warnp.c"
#include "libc_str.c"
#ifndef L0
#define L0 16
#endif
#ifndef L1
#define L1 20
#endif
#ifndef NLINES
#define NLINES 2
#endif
#define LMAX 40
static uint8_t LINE[2][LMAX + 1]; static const size_t LLEN[2] = { L0, L1 };
static int cur, open_fail, err_flag, close_fail, opens, closes, after_close;
static FILE * const TOKF = (FILE *)(uintptr_t)0x1000;
FILE * vh_fopen(const char * n, const char * m) { (void)n; (void)m; if (open_fail) return NULL; opens++; return TOKF; }
char * vh_fgets(char * b, int size, FILE * f)
{
	if (f != TOKF || closes) after_close = 1;
	if (cur >= NLINES || err_flag) return NULL;
	size_t n = LLEN[cur]; if (n > (size_t)size - 1) n = (size_t)size - 1;
	for (size_t i = 0; i < LMAX; i++) if (i < n) b[i] = (char)LINE[cur][i];
	b[n] = 0; cur++;
	return b;
}
int vh_ferror(FILE * f) { if (f != TOKF || closes) after_close = 1; return err_flag; }
int vh_fclose(FILE * f) { if (f != TOKF || closes) after_close = 1; closes++; return close_fail ? EOF : 0; }
/* strdup: exact-size copy; free: a secret must be all-zero when released */
static char * SECRET_P; static size_t SECRET_N; static int secret_dirty_free, frees_of_secret;
static char * vh_strdup(const char * s)
{
	size_t n = strlen(s); char * o = malloc(n + 1);
	if (o == NULL) return NULL;
	for (size_t i = 0; i <= n; i++) o[i] = s[i];
	/* the value follows NAME and the NUL that replaced '=': ...SECRET\0value vs ...KEY_ID\0value */
	if (s[-2] == 'T') { SECRET_P = o; SECRET_N = n; }
	return o;
}
static void vh_free(void * p)
{
	if (p != NULL && p == SECRET_P) { frees_of_secret++; for (size_t i = 0; i < LMAX; i++) if (i < SECRET_N && SECRET_P[i] != 0) secret_dirty_free = 1; }
	free(p);
}
#define strcspn vh_strcspn
#define fopen vh_fopen
#define fgets vh_fgets
#define ferror vh_ferror
#define fclose vh_fclose
#define strdup vh_strdup
#define free vh_free
#include "aws_readkeys.c"
#undef free
#undef strdup
static int starts(const uint8_t * l, size_t n, const char * name, size_t nl) { if (n < nl + 1) return 0; for (size_t i = 0; i < nl; i++) if (l[i] != (uint8_t)name[i]) return 0; return l[nl] == '='; }
void h_readkeys(void)
{
	for (int k = 0; k < NLINES; k++) { int nz = 1; for (size_t i = 0; i < LMAX; i++) if (i < LLEN[k]) { LINE[k][i] = nd_u8(); if (LINE[k][i] == 0) nz = 0; } ASSUME(nz); }
	open_fail = nd_bool(); err_flag = 0; close_fail = nd_bool();
	char * id = (char *)1, * sec = (char *)1;
	int rc = aws_readkeys("keyfile", &id, &sec);
	/* remember the secret for the wipe check when it is handed back */
	CHECK(rc == 0 || rc == -1, "documented return values");
	if (rc != 0 && SECRET_P != NULL) CHECK(frees_of_secret == 1 && !secret_dirty_free, "a secret that was read is zeroed before it is released on every failure path (C20)");
	if (rc != 0) CHECK(1, "failure");
	CHECK(!after_close && closes == (open_fail ? 0 : 1) , "the file is closed exactly once if it was opened, and not used afterwards");
	if (rc == 0) {
		CHECK(id != NULL && sec != NULL && !open_fail && !close_fail, "success only with both keys, an open file and a clean close");
		/* reference: every line must be NAME=value<EOL>; first EOL character ends the line; exactly one of each */
		int nid = 0, nsec = 0;
		for (int k = 0; k < NLINES; k++) {
			size_t e = LLEN[k]; for (size_t i = LMAX; i-- > 0;) if (i < LLEN[k] && (LINE[k][i] == '\r' || LINE[k][i] == '\n')) e = i;
			CHECK(e < LLEN[k], "a line without EOL ends the scan (so success needs both keys before it)");
			if (starts(LINE[k], e, "ACCESS_KEY_ID", 13)) nid++; else if (starts(LINE[k], e, "ACCESS_KEY_SECRET", 17)) nsec++; else CHECK(0, "success with a line that is not ACCESS_KEY_(ID|SECRET)=...");
		}
		CHECK(nid == 1 && nsec == 1, "exactly one id line and one secret line");
		free(id); free(sec);
	}
	REACHED();
}
