/* C12/C14: object pool (datastruct/mpool.h, pool of cache size 2) -- steps from an arbitrary valid pool state.
 * free() is rebound to a tracking stub so "returned to the allocator exactly once" and "still in use" are assertions. */
#include <stdint.h>
#include <stdlib.h>
#include <string.h>
#include "vh.h"
struct obj { uint64_t a, b; };
static void (*atexit_fn)(void); static int atexit_calls;
int atexit(void (*f)(void)) { atexit_fn = f; atexit_calls++; return 0; }
#include "mpool.h"
MPOOL(obj, struct obj, 2);
#ifndef ASZ
#define ASZ 2
#endif
#define NOBJ 5
enum { ABSENT = 0, INUSE, CACHED, FREED };
static struct obj * O[NOBJ]; static int st[NOBJ];
static void ** heapstack; static int heapstack_freed, bad_free;
void vh_free(void * p)
{
	if (p == NULL) return;
	if (p == (void *)heapstack && heapstack != NULL) { if (heapstack_freed) bad_free = 1; heapstack_freed = 1; return; }
	for (int k = 0; k < NOBJ; k++) if (p == (void *)O[k]) { if (st[k] == FREED || st[k] == ABSENT) bad_free = 1; st[k] = FREED; return; }
	bad_free = 1;	/* freeing something that is neither a pool object nor the heap stack (e.g. the static stack) */
}
static size_t asz;
static void mk(void)
{
	struct mpool * M = &mpool_obj_rec;
	for (int k = 0; k < NOBJ; k++) { O[k] = malloc(sizeof(struct obj)); ASSUME(O[k] != NULL); st[k] = nd_bool() ? INUSE : ABSENT; }
	asz = ASZ;	/* 2 = static stack, 4 = heap stack after one doubling; a constant per obligation */
	M->allocsize = asz;
	if (asz == 2) M->allocs = M->allocs_static; else { heapstack = malloc(4 * sizeof(void *)); ASSUME(heapstack != NULL); M->allocs = heapstack; }
	M->stacklen = nd_size_le(4); ASSUME(M->stacklen <= asz);
	for (size_t i = 0; i < 4; i++) if (i < M->stacklen) { ASSUME(st[i] == ABSENT); st[i] = CACHED; M->allocs[i] = O[i]; }	/* distinct cached objects */
	M->nallocs = nd_u64(); M->nempties = nd_u64(); ASSUME(M->nallocs < UINT64_MAX);
	M->state = nd_bool();
}
static int on_stack(void * p) { struct mpool * M = &mpool_obj_rec; int n = 0; for (size_t i = 0; i < 8; i++) if (i < M->stacklen && M->allocs[i] == p) n++; return n; }
static void inv(void)
{
	struct mpool * M = &mpool_obj_rec;
	CHECK(M->stacklen <= M->allocsize, "stack within capacity");
	CHECK(!bad_free, "nothing freed twice, nothing foreign freed");
	for (int k = 0; k < NOBJ; k++) {
		if (st[k] == CACHED) CHECK(on_stack(O[k]) == 1, "a cached object is on the stack exactly once");
		if (st[k] == INUSE || st[k] == FREED) CHECK(on_stack(O[k]) == 0, "an object in use (or released to the allocator) is not in the cache");
	}
}
void h_malloc(void)
{
	mk();
	size_t sl = mpool_obj_rec.stacklen;
	struct obj * p = mpool_obj_malloc();
#ifndef MMF
	CHECK(p != NULL, "allocation succeeds when memory is available");
#endif
	int known = -1;
	for (int k = 0; k < NOBJ; k++) if (p == O[k]) known = k;
	if (sl > 0) { CHECK(known >= 0 && st[known] == CACHED, "a cached object is reused"); CHECK(mpool_obj_rec.stacklen == sl - 1, "and leaves the cache"); st[known] = INUSE; }
	else { CHECK(known < 0, "otherwise the object is fresh from the allocator: never one that is still in use"); CHECK(mpool_obj_rec.state == 1 && atexit_calls <= 1, "exit handler registered (once)"); }
	inv();
	REACHED();
}
void h_free(void)
{
	mk();
	int k = nd_int_in(0, NOBJ - 1);
	ASSUME(st[k] == INUSE);
	size_t sl = mpool_obj_rec.stacklen, az = mpool_obj_rec.allocsize;
	void ** oldstack = mpool_obj_rec.allocs;
	mpool_obj_free(O[k]);
	if (st[k] != FREED) st[k] = CACHED;
	CHECK(st[k] == FREED ? mpool_obj_rec.stacklen == sl : mpool_obj_rec.stacklen == sl + 1, "the object is cached or handed back to the allocator");
	if (sl < az) CHECK(st[k] == CACHED && mpool_obj_rec.allocsize == az, "room in the cache: cached, no growth");
	if (mpool_obj_rec.allocsize != az) {
		CHECK(mpool_obj_rec.allocsize == 2 * az && st[k] == CACHED, "cache doubles and takes the object");
		CHECK((oldstack == (void **)heapstack) == (heapstack_freed == 1), "old heap stack released, static stack never freed");
		heapstack = NULL;
	}
	for (size_t i = 0; i < 4; i++) if (i < sl) CHECK(mpool_obj_rec.allocs[i] == O[i], "cached objects keep their order");
	inv();
	REACHED();
}
void h_atexit(void)
{
	mk();
	int had_heap = heapstack != NULL;
	mpool_obj_atexit();
	for (int k = 0; k < NOBJ; k++) CHECK(st[k] != CACHED, "every cached object returned to the allocator at exit");
	CHECK(mpool_obj_rec.stacklen == 0, "cache empty");
	CHECK(heapstack_freed == had_heap, "heap-allocated stack released, static stack not");
	CHECK(!bad_free, "nothing freed twice, nothing foreign freed");
	for (int k = 0; k < NOBJ; k++) if (st[k] == INUSE) CHECK(1, "objects in use are untouched");
	REACHED();
}
