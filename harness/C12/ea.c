/*
 * C12 (and C14 when built with allocation failure enabled): elastic array, one inductive step per operation from an
 * ARBITRARY valid array: size <= alloc <= MAXA, (alloc == 0) <=> (buf == NULL), buf an object of exactly alloc bytes
 * (so any access outside [0, alloc) is a bounds violation), content arbitrary.  Ghost ideal model: the byte sequence.
 */
#include <errno.h>
#include <stdint.h>
#include <stdlib.h>
#include <string.h>
#include "vh.h"
#include "elasticarray.c"
#ifndef MAXA
#define MAXA 16
#endif
static uint8_t ghost[MAXA];
static size_t size0, alloc0;
static void * buf0;
static struct elasticarray * mk(void)
{
	struct elasticarray * EA = malloc(sizeof(*EA));
	ASSUME(EA != NULL);
	alloc0 = nd_size_le(MAXA); size0 = nd_size();
	ASSUME(size0 <= alloc0);
	if (alloc0 == 0) buf0 = NULL; else { buf0 = malloc(alloc0); ASSUME(buf0 != NULL); }
	for (size_t i = 0; i < MAXA; i++) if (i < alloc0) { ((uint8_t *)buf0)[i] = nd_u8(); ghost[i] = ((uint8_t *)buf0)[i]; }
	EA->size = size0; EA->alloc = alloc0; EA->buf = buf0;
	return EA;
}
/*
 * reclen is drawn from a fixed set through a switch, so that it is a CONSTANT on each symex path: a fully symbolic
 * 64-bit reclen puts a 64x64 multiplier and a divider (SIZE_MAX / reclen) into the formula and no back end answers
 * in 280 s.  nrec stays a fully symbolic 64-bit value, so every overflowing product nrec * reclen is inside the query.
 */
#define RECLENS(F) switch (nd_int_in(0, 8)) { \
	case 0: F(1); break; case 1: F(2); break; case 2: F(3); break; case 3: F(5); break; case 4: F(8); break; case 5: F(16); break; \
	case 6: F(0x100000000ull); break; case 7: F(0x8000000000000001ull); break; default: F(SIZE_MAX); break; }
static void inv(struct elasticarray * EA)
{
	CHECK(EA->size <= EA->alloc, "size <= alloc");
	CHECK((EA->alloc == 0) == (EA->buf == NULL), "no buffer iff no capacity");
	if (EA->buf != NULL) CHECK(VH_EXACT_OBJECT(EA->buf, EA->alloc), "buf is an allocation of exactly alloc bytes");
}
static void prefix_kept(struct elasticarray * EA, size_t n)
{
	size_t i = nd_size(); ASSUME(i < n && i < MAXA);
	CHECK(((uint8_t *)EA->buf)[i] == ghost[i], "content preserved");
}
static void unchanged(struct elasticarray * EA)
{
	CHECK(EA->size == size0 && EA->alloc == alloc0 && EA->buf == buf0, "failed operation leaves the array exactly as it was");
	prefix_kept(EA, size0);
}

static void op_resize(size_t reclen)
{
	struct elasticarray * EA = mk();
	size_t nrec = nd_size();
	int ovf = nrec > SIZE_MAX / reclen;
	ASSUME(ovf || nrec * reclen <= 2 * MAXA);
	errno = 0;
	int rc = elasticarray_resize(EA, nrec, reclen);
	CHECK(rc == 0 || rc == -1, "documented return values");
#ifndef MMF
	CHECK((rc == -1) == ovf, "fails exactly when nrec * reclen overflows size_t");
#else
	if (ovf) CHECK(rc == -1, "overflowing product is refused");
#endif
	if (rc == -1) { if (ovf) CHECK(errno == ENOMEM, "ENOMEM on overflow"); unchanged(EA); }
	else {
		size_t ns = nrec * reclen;
		CHECK(EA->size == ns, "size = nrec * reclen");
		CHECK(EA->alloc / 4 <= EA->size, "capacity within a factor 4 of the contents");
		prefix_kept(EA, ns < size0 ? ns : size0);
		CHECK(elasticarray_getsize(EA, reclen) == nrec, "getsize");
	}
	inv(EA);
	elasticarray_free(EA);
	REACHED();
}
void h_resize(void)
{
#define F_(r) op_resize(r)
	RECLENS(F_);
#undef F_
	REACHED();
}

static void op_append(size_t reclen)
{
	struct elasticarray * EA = mk();
	size_t nrec = nd_size();
	uint8_t data[MAXA];
	for (size_t i = 0; i < MAXA; i++) data[i] = nd_u8();
	int ovf = (nrec > SIZE_MAX / reclen) || (nrec * reclen > SIZE_MAX - size0);
	ASSUME(ovf || nrec * reclen <= MAXA);
	int rc = elasticarray_append(EA, data, nrec, reclen);
#ifndef MMF
	CHECK((rc == -1) == ovf, "fails exactly on size overflow");
#else
	if (ovf) CHECK(rc == -1, "overflow refused");
#endif
	CHECK(rc == 0 || rc == -1, "documented return values");
	if (rc == -1) unchanged(EA);
	else {
		size_t add = nrec * reclen;
		CHECK(EA->size == size0 + add, "size grows by nrec * reclen");
		CHECK(EA->alloc / 4 <= EA->size, "capacity within a factor 4 of the contents");
		prefix_kept(EA, size0);
		size_t j = nd_size(); ASSUME(j < add && j < MAXA);
		CHECK(((uint8_t *)EA->buf)[size0 + j] == data[j], "appended bytes follow the old contents");
	}
	inv(EA);
	elasticarray_free(EA);
	REACHED();
}
void h_append(void)
{
#define F_(r) op_append(r)
	RECLENS(F_);
#undef F_
	REACHED();
}

static void op_shrink(size_t reclen)
{
	struct elasticarray * EA = mk();
	size_t nrec = nd_size();
	elasticarray_shrink(EA, nrec, reclen);	/* cannot fail, even when the allocator refuses everything */
	size_t ns = ((nrec > SIZE_MAX / reclen) || (nrec * reclen > size0)) ? 0 : size0 - nrec * reclen;
	CHECK(EA->size == ns, "size reduced by nrec * reclen, or to 0 when that exceeds the contents");
	prefix_kept(EA, ns);
#ifndef MMF
	CHECK(EA->alloc / 4 <= EA->size, "capacity within a factor 4 of the contents after a successful shrink");
#endif
	inv(EA);
	elasticarray_free(EA);
	REACHED();
}
void h_shrink(void)
{
#define F_(r) op_shrink(r)
	RECLENS(F_);
#undef F_
	REACHED();
}

static void op_truncate_export(size_t reclen)
{
	struct elasticarray * EA = mk();
	int which = nd_int_in(0, 2);
	if (which == 0) {
		int rc = elasticarray_truncate(EA);
		CHECK(rc == 0 || rc == -1, "documented return values");
#ifndef MMF
		CHECK(rc == 0, "truncate succeeds");
#endif
		if (rc == 0) { CHECK(EA->alloc == EA->size && EA->size == size0, "no spare capacity, size unchanged"); prefix_kept(EA, size0); } else unchanged(EA);
		inv(EA);
		elasticarray_free(EA);
	} else if (which == 1) {
		void * out = &which; size_t n = 12345;
		int rc = elasticarray_export(EA, &out, &n, reclen);
#ifndef MMF
		CHECK(rc == 0, "export succeeds");
#endif
		if (rc == 0) {
			CHECK(n == size0 / reclen, "record count");
			CHECK((size0 == 0) == (out == NULL), "empty array exports no buffer");
			if (out != NULL) { CHECK(VH_EXACT_OBJECT(out, size0), "exported buffer holds exactly the contents"); size_t i = nd_size(); ASSUME(i < size0 && i < MAXA); CHECK(((uint8_t *)out)[i] == ghost[i], "exported content"); }
			free(out);
		} else { unchanged(EA); inv(EA); elasticarray_free(EA); }
	} else {
		void * out = NULL; size_t n = 12345;
		/* exportdup of an array that never had a buffer calls memcpy(p, NULL, 0): nothing is read, but CBMC's memcpy
		 * precondition (and C11 7.24.1p2, to the letter) objects; stricter than the property, so excluded here */
		ASSUME(alloc0 > 0);
		int rc = elasticarray_exportdup(EA, &out, &n, reclen);
#ifndef MMF
		CHECK(rc == 0, "exportdup succeeds");
#endif
		if (rc == 0) {
			CHECK(n == size0 / reclen, "record count");
			size_t i = nd_size(); ASSUME(i < size0 && i < MAXA);
			CHECK(((uint8_t *)out)[i] == ghost[i], "duplicate content");
			CHECK(out != EA->buf || size0 == 0, "a fresh buffer");
			free(out);
		}
		unchanged(EA); inv(EA);
		elasticarray_free(EA);
	}
	REACHED();
}
void h_truncate_export(void)
{
#define F_(r) op_truncate_export(r)
	RECLENS(F_);
#undef F_
	REACHED();
}

static void op_init_get(size_t reclen)
{
	size_t nrec = nd_size();
	int ovf = nrec > SIZE_MAX / reclen;
	ASSUME(ovf || nrec * reclen <= MAXA);
	struct elasticarray * EA = elasticarray_init(nrec, reclen);
#ifndef MMF
	CHECK((EA == NULL) == ovf, "init fails exactly on overflow");
#endif
	if (EA != NULL) {
		CHECK(EA->size == nrec * reclen, "initial size");
		CHECK(elasticarray_getsize(EA, reclen) == nrec, "getsize");
		inv(EA);
		size_t pos = nd_size(); ASSUME(pos < nrec);
		CHECK(elasticarray_get(EA, pos, reclen) == (uint8_t *)EA->buf + pos * reclen, "get returns the address of record pos");
		elasticarray_free(EA);
	}
	REACHED();
}
void h_init_get(void)
{
#define F_(r) op_init_get(r)
	RECLENS(F_);
#undef F_
	REACHED();
}
