def ea_obligations(tier, mmf, prefix):
    T = tier == "thorough"
    ma = 24 if T else 12
    obs = []
    for ent, nm, what in (("h_resize", "resize", "elasticarray_resize: succeeds iff nrec*reclen fits size_t; size = product; common prefix preserved; alloc/4 <= size; failure leaves the array unchanged"),
                          ("h_append", "append", "elasticarray_append: old contents then the new bytes; overflow refused; alloc/4 <= size"),
                          ("h_shrink", "shrink", "elasticarray_shrink: never fails; prefix preserved; alloc/4 <= size after a successful shrink"),
                          ("h_truncate_export", "truncate-export", "truncate / export / exportdup hand over exactly the contents"),
                          ("h_init_get", "init-get", "init establishes the invariant; get addresses record pos")):
        obs.append(dict(name=prefix + "elasticarray-" + nm, harness="../C12/ea.c", entry=ent, defs=["MAXA=%d" % ma] + (["MMF"] if mmf else []), unwind=2 * ma + 4, mmf=mmf,
                        flags=["--memory-leak-check"] if mmf else [], backends=["cadical"], timeout=1800 if T else 280,
                        claim=what + (" [every allocation may fail independently: failure => -1/NULL, array unchanged, no leak]" if mmf else ""),
                        bounds="pre-state size <= alloc <= %d bytes; nrec, reclen fully symbolic 64-bit (incl. overflowing products); new size <= %d" % (ma, 2 * ma),
                        stubs=["malloc/realloc/free: CBMC models" + (" with --malloc-may-fail --malloc-fail-null" if mmf else "")]))
    return obs

def eq_obligations(tier, mmf, prefix):
    T = tier == "thorough"
    mr = 6 if T else 4
    if mmf: mr = 3 if T else 2   # with failing allocators the success/failure merges make each shape far more expensive
    obs = []
    for ent, nm, what in (("h_q_add", "elasticqueue-add", "elasticqueue_add: length+1, existing records unchanged, new record last, out-of-range get NULL"),
                          ("h_q_delete", "elasticqueue-delete", "elasticqueue_delete: FIFO -- record i becomes old record i+1, across the move-to-front and the shrink; never fails"),
                          ("h_q_init", "elasticqueue-init", "elasticqueue_init gives an empty queue"),
                          ("h_m_add", "seqptrmap-add", "seqptrmap_add: numbers consecutive, get returns the stored pointer, others unaffected, NULL outside the range, getmin"),
                          ("h_m_delete", "seqptrmap-delete", "seqptrmap_delete of ANY number (live, deleted, unknown, negative): exactly that number maps to NULL afterwards, minimum = least live number, leading tombstones trimmed"),
                          ("h_m_init", "seqptrmap-init", "seqptrmap_init gives an empty map numbering from 0")):
        obs.append(dict(name=prefix + nm, harness="../C12/eq.c", entry=ent, defs=["MAXR=%d" % mr] + (["MMF"] if mmf else []), unwind=mr * 8 + 34, mmf=mmf, flags0=1,
                        unwindset=["elasticqueue_delete#0:%d" % (mr + 1), "seqptrmap_delete#0:%d" % (mr + 2)],
                        flags=["--object-bits", "12"] + (["--memory-leak-check"] if mmf else []), backends=["cadical"], timeout=1800 if T else 280,
                        claim=what + (" [every allocation may fail independently: failure reported, structure unchanged and usable, no leak]" if mmf else ""),
                        bounds="every shape offset <= len, offset+len <= %d records, spare capacity 0 or 3 records, reclen in {1,3,8} (queue) / pointer-sized (map), enumerated concretely by the harness; contents, pointers, numbering offset, arguments symbolic" % mr,
                        stubs=["malloc/realloc/free: CBMC models" + (" with --malloc-may-fail --malloc-fail-null" if mmf else "")]))
    return obs

def mp_obligations(tier, mmf, prefix):
    T = tier == "thorough"
    obs = []
    for ent, nm, what in (("h_malloc", "mpool-malloc", "mpool_malloc from an arbitrary pool state: reuses the top cached object or returns a fresh one -- never an object still in use; exit handler registered once"),
                          ("h_free", "mpool-free", "mpool_free: object cached (order kept) or handed back; cache doubling copies the entries, frees a heap stack, never the static one"),
                          ("h_atexit", "mpool-atexit", "exit handler returns every cached object and a heap-allocated stack to the allocator, exactly once each")):
      for asz in (2, 4):
        obs.append(dict(name=prefix + nm + "-cache%d" % asz, harness="../C12/mpool.c", entry=ent, defs=["ASZ=%d" % asz] + (["MMF"] if mmf else []), unwind=12, mmf=mmf, replace=["free:vh_free"],
                        unwindset=["mpool_atexit#0:6"], backends=["cadical"], timeout=1800 if T else 280, replay="model",
                        claim=what + (" [allocation may fail: object freed instead of cached, nothing lost]" if mmf else ""),
                        bounds="pool with cache size 2 (static) or 4 (heap stack), <= 5 objects, arbitrary statistics counters", stubs=["free -> tracking stub", "atexit -> recording stub"]))
    return obs

def obligations(tier):
    return ea_obligations(tier, False, "") + eq_obligations(tier, False, "") + mp_obligations(tier, False, "")

TRUSTED = ["CBMC 6.11 C semantics and heap model", "cadical"]
ASSUMPTIONS = ["factor-4 bound read as alloc/4 <= size (the code tests its threshold in integer division)"]
EXPLANATION = ""
