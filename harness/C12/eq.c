/* C12/C14: elastic queue and sequential pointer map -- inductive steps from arbitrary valid states over the real elasticarray.c */
#include <stdint.h>
#include <stdlib.h>
#include <string.h>
#include "vh.h"
#include "elasticarray.c"
#include "elasticqueue.c"
#include "seqptrmap.c"
#ifndef MAXR
#define MAXR 5		/* records in the underlying array (offset + len) */
#endif
#define MAXRL 8
static uint8_t ghost[(MAXR + 1) * MAXRL];
static size_t off0, len0, rl0;
/* arbitrary valid queue: offset <= len (the move-to-front invariant), array size = (offset+len)*reclen <= alloc */
/*
 * The SHAPE (offset, len, reclen, spare capacity) is enumerated concretely by the harness loops -- every shape with
 * offset <= len, offset+len <= MAXR -- while record contents, pointers, numbering offset and operation arguments are
 * symbolic.  With symbolic shapes the symbolic-size malloc/realloc sent CBMC past 28 GB without an answer.
 */
static size_t sh_off, sh_len, sh_spare;
static struct elasticqueue * mkq(size_t reclen)
{
	struct elasticqueue * EQ = malloc(sizeof(*EQ));
	struct elasticarray * EA = malloc(sizeof(*EA));
	ASSUME(EQ != NULL && EA != NULL);
	off0 = sh_off; len0 = sh_len; rl0 = reclen;
	EA->size = (off0 + len0) * reclen;
	EA->alloc = EA->size + sh_spare * reclen;
	if (EA->alloc == 0) EA->buf = NULL; else { EA->buf = malloc(EA->alloc); ASSUME(EA->buf != NULL); }
	for (size_t i = 0; i < MAXR * MAXRL; i++) if (i < EA->size) { ((uint8_t *)EA->buf)[i] = nd_u8(); ghost[i] = ((uint8_t *)EA->buf)[i]; }
	EQ->EA = EA; EQ->offset = off0; EQ->len = len0; EQ->reclen = reclen;
	return EQ;
}
static void qinv(struct elasticqueue * EQ)
{
	CHECK(EQ->offset <= EQ->len, "offset <= len");
	CHECK(EQ->EA->size == (EQ->offset + EQ->len) * EQ->reclen && EQ->EA->size <= EQ->EA->alloc, "array holds exactly offset+len records");
	CHECK((EQ->EA->alloc == 0) == (EQ->EA->buf == NULL), "buffer iff capacity");
}
/* byte b of logical record i of the ORIGINAL queue */
static uint8_t g(size_t i, size_t b) { return ghost[(off0 + i) * rl0 + b]; }
/* inside the shape loops a failed ASSUME would cut off all later shapes: indices are drawn modulo their range and guarded */
static size_t pick(size_t n) { size_t v = nd_size(); return n ? v % n : 0; }
static const size_t RL[3] = {1, 3, 8};
#define SHAPES(body) for (sh_len = 0; sh_len <= MAXR; sh_len++) for (sh_off = 0; sh_off <= sh_len && sh_off + sh_len <= MAXR; sh_off++) for (sh_spare = 0; sh_spare <= 3; sh_spare += 3) { body; }
#define RLS(F) SHAPES(for (int r_ = 0; r_ < 3; r_++) F(RL[r_]))

static void op_add(size_t reclen)
{
	struct elasticqueue * EQ = mkq(reclen);
	uint8_t rec[MAXRL]; for (int i = 0; i < MAXRL; i++) rec[i] = nd_u8();
	int rc = elasticqueue_add(EQ, rec);
	CHECK(rc == 0 || rc == -1, "documented return values");
#ifndef MMF
	CHECK(rc == 0, "add succeeds when memory is available");
#endif
	CHECK(elasticqueue_getlen(EQ) == len0 + (rc == 0 ? 1 : 0), "length grows by one exactly on success");
	size_t i = pick(len0), b = pick(reclen);
	if (len0 > 0) CHECK(((uint8_t *)elasticqueue_get(EQ, i))[b] == g(i, b), "existing records keep their position and content");
	if (rc == 0) CHECK(((uint8_t *)elasticqueue_get(EQ, len0))[b] == rec[b], "new record is last");
	CHECK(elasticqueue_get(EQ, len0 + (rc == 0 ? 1 : 0)) == NULL, "out-of-range get returns NULL");
	qinv(EQ);
	elasticqueue_free(EQ);
}
void h_q_add(void) {
#define F_(r) op_add(r)
	RLS(F_);
#undef F_
	REACHED(); }

static void op_delete(size_t reclen)
{
	struct elasticqueue * EQ = mkq(reclen);
	elasticqueue_delete(EQ);	/* cannot fail */
	CHECK(elasticqueue_getlen(EQ) == (len0 ? len0 - 1 : 0), "front record removed (no-op on an empty queue)");
	size_t i = pick(len0 ? len0 - 1 : 0), b = pick(reclen);
	if (len0 > 1) CHECK(((uint8_t *)elasticqueue_get(EQ, i))[b] == g(i + 1, b), "FIFO order: record i is the old record i+1 (across the move-to-front)");
	qinv(EQ);
	elasticqueue_free(EQ);
}
void h_q_delete(void) {
#define F_(r) op_delete(r)
	RLS(F_);
#undef F_
	REACHED(); }

void h_q_init(void)
{
	size_t reclen = nd_size(); ASSUME(reclen > 0);
	struct elasticqueue * EQ = elasticqueue_init(reclen);
#ifndef MMF
	CHECK(EQ != NULL, "init succeeds when memory is available");
#endif
	if (EQ) { CHECK(elasticqueue_getlen(EQ) == 0 && EQ->offset == 0 && EQ->reclen == reclen, "empty queue"); CHECK(elasticqueue_get(EQ, 0) == NULL, "nothing to get"); elasticqueue_free(EQ); }
	REACHED();
}

/* ---- sequential pointer map: numbers M->offset .. M->offset+len-1, NULL = deleted, first entry live unless empty ---- */
static int64_t moff0;
static void * gp[MAXR + 1];
static struct seqptrmap * mkm(void)
{
	struct seqptrmap * M = malloc(sizeof(*M));
	ASSUME(M != NULL);
	M->ptrs = mkq(sizeof(void *));
	M->len = len0;
	moff0 = (int64_t)(nd_u64() % (uint64_t)(INT64_MAX - 2 * MAXR - 2));
	M->offset = moff0;
	for (size_t i = 0; i < MAXR; i++) if (i < len0) gp[i] = *(void **)elasticqueue_get(M->ptrs, i);
	if (len0 > 0 && gp[0] == NULL) {	/* invariant: leading tombstones are always trimmed -- make the first entry live */
		gp[0] = (void *)(uintptr_t)1; *(void **)elasticqueue_get(M->ptrs, 0) = gp[0];
	}
	return M;
}
static int64_t ideal_min(size_t skip) /* least live number >= skip-th, or -1 */
{
	for (size_t i = 0; i < MAXR; i++) if (i >= skip && i < len0 && gp[i] != NULL) return moff0 + (int64_t)i;
	return -1;
}
static void op_m_add(void)
{
	struct seqptrmap * M = mkm();
	void * p = (void *)(uintptr_t)(nd_u64() | 1);	/* a non-NULL pointer value */
	int64_t n = seqptrmap_add(M, p);
#ifndef MMF
	CHECK(n != -1, "add succeeds when memory is available");
#endif
	if (n != -1) { CHECK(n == moff0 + (int64_t)len0, "numbers are issued consecutively"); CHECK(seqptrmap_get(M, n) == p, "the stored pointer is returned for its number"); }
	size_t i = pick(len0);
	if (len0 > 0) CHECK(seqptrmap_get(M, moff0 + (int64_t)i) == gp[i], "other numbers unaffected");
	CHECK(seqptrmap_get(M, moff0 - 1) == NULL && seqptrmap_get(M, moff0 + (int64_t)len0 + (n != -1)) == NULL, "NULL outside the issued range");
	CHECK(seqptrmap_getmin(M) == (len0 ? moff0 : n), "minimum live number");
	seqptrmap_free(M);
}
void h_m_add(void) { SHAPES(op_m_add()); REACHED(); }
static void op_m_delete(void)
{
	struct seqptrmap * M = mkm();
	int64_t d = (int64_t)nd_u64();	/* any number: live, deleted, never issued, negative */
	seqptrmap_delete(M, d);
	size_t i = pick(len0);
	int64_t ni = moff0 + (int64_t)i;
	if (len0 > 0) CHECK(seqptrmap_get(M, ni) == (ni == d ? NULL : gp[i]), "exactly the deleted number now maps to NULL");
	if (d >= moff0 && d < moff0 + (int64_t)len0) gp[d - moff0] = NULL;
	CHECK(seqptrmap_getmin(M) == ideal_min(0), "minimum is the least live number, -1 when none");
	CHECK(seqptrmap_get(M, moff0 - 1) == NULL && seqptrmap_get(M, moff0 + (int64_t)len0) == NULL, "NULL outside the issued range");
	CHECK(M->len == elasticqueue_getlen(M->ptrs), "bookkeeping consistent");
	CHECK(M->len == 0 || *(void **)elasticqueue_get(M->ptrs, 0) != NULL, "leading tombstones trimmed");
	seqptrmap_free(M);
}
void h_m_delete(void) { SHAPES(op_m_delete()); REACHED(); }
void h_m_init(void)
{
	struct seqptrmap * M = seqptrmap_init();
#ifndef MMF
	CHECK(M != NULL, "init succeeds when memory is available");
#endif
	if (M) { CHECK(seqptrmap_getmin(M) == -1 && seqptrmap_get(M, 0) == NULL, "empty map"); CHECK(M->offset == 0, "numbers start at 0"); seqptrmap_free(M); }
	REACHED();
}
