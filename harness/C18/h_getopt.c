/*
 * C18 (+C15): util/getopt.c driven through exactly the calls the GETOPT_* macros expand to
 * (dummy pass, getopt_setrange, getopt_register_opt per label in label order, optional getopt_register_missing,
 * getopt_initialized = 1, then getopt()/getopt_lookup() per iteration), in lock step with an independent reference
 * parser of the grammar documented in getopt.h.  The macro layer itself (line-number dispatch, sigsetjmp/computed
 * goto) is NOT executed symbolically: CBMC's symex does not get through it (DESIGN.md); the mapping label -> slot
 * is mirrored by hand here.
 */
#include <stdint.h>
#include <stdlib.h>
#include <string.h>
#include "vh.h"
#include "getopt.c"
int atexit(void (*f)(void)) { (void)f; return 0; }
#ifndef NARG
#define NARG 3
#endif
#ifndef SLEN
#define SLEN 5
#endif
#define KMAX (NARG * SLEN + 1)
/* option table: slot = order of the labels in the switch */
enum { S_A = 0, S_B = 1, S_F = 2, S_FO = 3, S_MISSING = 4, NSLOT = 5 };
static const char * const NAMES[4] = {"-a", "-b", "--f", "--fo"};
static const int HASARG[4] = {0, 1, 0, 1};
static size_t slot_default, slot_missing;
static void setup(int with_missing)
{
	getopt_setrange(NSLOT);
	for (int i = 0; i < 4; i++) getopt_register_opt(NAMES[i], (size_t)i, HASARG[i]);
	if (with_missing) getopt_register_missing(S_MISSING);
	getopt_initialized = 1;
	slot_default = NSLOT + 1;
	slot_missing = with_missing ? S_MISSING : slot_default;
}
/* ---- reference parser ---- */
static int r_ind; static size_t r_pos;	/* next argv index; position inside a pack of short options (0 = not in a pack) */
static void ref_reset(void) { r_ind = 1; r_pos = 0; }
/* returns 0 at the end of options, else 1 with *slot / *arg */
static int ref_next(int argc, char * const * argv, size_t * slot, const char ** arg)
{
	const char * a; const char * name = NULL; size_t nlen = 0; char sh[3];
	*arg = NULL;
	if (r_ind >= argc) return 0;
	a = argv[r_ind];
	if (r_pos == 0) {
		if (a[0] != '-' || a[1] == '\0') return 0;		/* operand, or a lone "-" (not consumed) */
		if (a[1] == '-' && a[2] == '\0') { r_ind++; return 0; }	/* "--" (consumed) */
		if (a[1] != '-') r_pos = 1;
	}
	int k = -1;
	const char * after = NULL;	/* text after the option name inside this argv element */
	if (r_pos > 0) {
		sh[0] = '-'; sh[1] = a[r_pos]; sh[2] = '\0';
		r_pos++;
		for (int i = 0; i < 4; i++) if (strcmp(NAMES[i], sh) == 0) k = i;
		if (a[r_pos] == '\0') { r_pos = 0; r_ind++; }
	} else {
		for (nlen = 0; a[nlen] != '\0' && a[nlen] != '='; nlen++) ;
		for (int i = 0; i < 4; i++) if (strlen(NAMES[i]) == nlen && strncmp(NAMES[i], a, nlen) == 0) k = i;
		if (a[nlen] == '=') after = a + nlen + 1;
		r_ind++;
	}
	(void)name;
	if (k < 0) { *slot = slot_default; return 1; }		/* unknown option */
	if (HASARG[k]) {
		if (r_pos > 0) { *arg = a + r_pos; r_pos = 0; r_ind++; }	/* rest of the pack is the argument */
		else if (after != NULL) *arg = after;			/* --name=value */
		if (*arg == NULL && r_ind < argc) *arg = argv[r_ind++];	/* separate argument */
		*slot = (*arg == NULL) ? slot_missing : (size_t)k;
	} else {
		*slot = (after != NULL) ? slot_default : (size_t)k;	/* unwanted =value */
	}
	return 1;
}
static char A[2][NARG][SLEN + 1];
static char prog[] = "p";
static void mkargv(int v, char ** argv, int * argc)
{
	*argc = nd_int_in(1, NARG + 1);
	argv[0] = prog;
	for (int i = 0; i < NARG; i++) {
		for (int j = 0; j < SLEN; j++) {
			static const char AL[8] = {'-', '=', 'a', 'b', 'f', 'o', 'x', '\0'};
			A[v][i][j] = AL[nd_u8() & 7];
		}
		A[v][i][SLEN] = '\0';
		argv[i + 1] = A[v][i];
	}
	argv[*argc] = NULL;
}
static void lockstep(int argc, char ** argv)
{
	ref_reset();
	for (int step = 0; step < KMAX; step++) {
		size_t rs = 99; const char * ra = NULL;
		const char * ch = getopt(argc, argv);
		int more = ref_next(argc, argv, &rs, &ra);
		CHECK((ch != NULL) == (more != 0), "parsing stops exactly where the grammar says (first operand, lone '-', or after '--')");
		if (ch == NULL || !more) break;
		size_t k = getopt_lookup(ch);
		CHECK(k == rs, "the label reached is the registered option / default / missing-argument handler the grammar defines");
		CHECK(optarg == ra, "option argument: rest of the pack, text after '=', or the next argv element; NULL otherwise");
		if (k < 4 && HASARG[k]) CHECK(optarg != NULL, "an option taking an argument is reported with one");
		CHECK(optind == r_ind, "scan index");
	}
	CHECK(optind == r_ind && optind >= 1 && optind <= argc, "optind = index of the first operand");
}
void h_parse(void)
{
	char * argv[NARG + 2]; int argc;
	mkargv(0, argv, &argc);
	int wm = nd_bool();
	opterr = 0;
	const char * ch = getopt(argc, argv);
	CHECK(ch == GETOPT_DUMMY, "first call after a reset returns the dummy option (initialisation pass)");
	setup(wm);
	lockstep(argc, argv);
	REACHED();
}
void h_reset(void)
{
	char * argv[NARG + 2], * argv2[NARG + 2]; int argc, argc2;
	mkargv(0, argv, &argc); mkargv(1, argv2, &argc2);
	int wm = nd_bool();
	opterr = 0;
	(void)getopt(argc, argv);
	setup(wm);
	for (int step = 0; step < KMAX; step++) { const char * ch = getopt(argc, argv); if (ch == NULL) break; (void)getopt_lookup(ch); if (nd_bool()) break; }	/* abandon the first parse anywhere */
	optreset = 1;
	const char * ch = getopt(argc2, argv2);
	CHECK(ch == GETOPT_DUMMY, "after optreset the next call starts a fresh initialisation pass");
	setup(wm);
	lockstep(argc2, argv2);	/* identical to a fresh parse of the second vector */
	REACHED();
}
