def obligations(tier):
    T = tier == "thorough"
    cfgs = [("h_parse", "getopt-grammar-3x4", 3, 4), ("h_parse", "getopt-grammar-2x5", 2, 5), ("h_reset", "getopt-reset-2x4", 2, 4)]
    if T:
        cfgs += [("h_parse", "getopt-grammar-3x5", 3, 5), ("h_parse", "getopt-grammar-4x4", 4, 4), ("h_reset", "getopt-reset-2x5", 2, 5), ("h_reset", "getopt-reset-3x4", 3, 4)]
    obs = []
    W = {"h_parse": "one parse in lock step with the reference grammar: same sequence of (label, optarg), same stop point, same optind",
         "h_reset": "after optreset = 1 (first parse abandoned at an arbitrary point) a second vector parses exactly like a fresh parse"}
    for ent, nm, na, sl in cfgs:
        obs.append(dict(name=nm, harness="h_getopt.c", entry=ent, defs=["NARG=%d" % na, "SLEN=%d" % sl], unwind=na * sl + 4,
                        unwindset=["strlen.0:8", "strcmp.0:8", "strncmp.0:8", "reset.0:3", "searchopt.0:7", "getopt_setrange.0:7"],
                        backends=["cadical"], timeout=2400 if T else 280, claim=W[ent],
                        bounds="argv: <= %d strings of <= %d characters over {-,=,a,b,f,o,x}; option table {-a, -b ARG, --f, --fo ARG}, with and without a missing-argument handler" % (na, sl),
                        stubs=["atexit -> no-op", "fprintf (warnings) disabled via opterr = 0"]))
    return obs
TRUSTED = ["CBMC 6.11 C semantics and string.h models", "cadical", "the hand-written mirror of the GETOPT_* macro expansion (label order = slot order)"]
ASSUMPTIONS = ["the GETOPT_SWITCH/GETOPT_OPT macro layer of getopt.h is not symbolically executed (symex does not terminate on it); a change confined to those macros is outside this check"]
EXPLANATION = ""
