/* C17/C15: base-64, hex, endian codecs of /repo/util -- real sources included. */
#include <stdlib.h>
#include <string.h>
#include "vh.h"
#include "ref_codec.h"
#include "b64encode.c"
#include "hexify.c"
#include "sysendian.h"

#ifndef MAXLEN
#define MAXLEN 4
#endif

/* b64encode(x) == RFC 4648 reference, writes exactly enclen+1 bytes (exact-size output object) */
void h_b64encode(void)
{
	size_t len = nd_size_le(MAXLEN);
	uint8_t * in = malloc(len);
	size_t el = ref_b64_enclen(len);
	char * out = malloc(el + 1);
	ND_BYTES_MAX(in, len, MAXLEN);
	b64encode(in, out, len);
	size_t j = nd_size();
	ASSUME(j < el);
	CHECK(out[j] == ref_b64_char(in, len, j), "b64encode character equals RFC 4648");
	CHECK(out[el] == '\0', "b64encode NUL terminator");
	REACHED();
}

/* b64decode(b64encode(x)) == x */
void h_b64roundtrip(void)
{
	size_t len = nd_size_le(MAXLEN);
	uint8_t * in = malloc(len);
	size_t el = ref_b64_enclen(len);
	char * enc = malloc(el + 1);
	uint8_t * dec = malloc(el / 4 * 3);
	size_t dl = nd_size();
	ND_BYTES_MAX(in, len, MAXLEN);
	b64encode(in, enc, len);
	int rc = b64decode(enc, el, dec, &dl);
	CHECK(rc == 0, "decode of an encoding succeeds");
	CHECK(dl == len, "decoded length");
	size_t i = nd_size();
	ASSUME(i < len);
	CHECK(dec[i] == in[i], "decoded byte equals original");
	REACHED();
}

/* b64decode accepts exactly the well-formed language, decodes to the reference value,
 * reads only in[0..inlen) (exact-size object), writes only out[0..inlen/4*3) */
#ifndef MAXIN
#define MAXIN 8
#endif
void h_b64decode(void)
{
	size_t inlen = nd_size_le(MAXIN);
	uint8_t * in = malloc(inlen);
	uint8_t * out = malloc(inlen / 4 * 3);
	size_t ol = nd_size(), ol0 = ol;
	ND_BYTES_MAX(in, inlen, MAXIN);
	int rc = b64decode((const char *)in, inlen, out, &ol);
	int wf = ref_b64_wellformed(in, inlen);
	CHECK((rc == 0) == (wf != 0), "accepts exactly the well-formed encodings");
	CHECK(rc == 0 || rc == 1, "documented return values");
	if (rc == 0) {
		CHECK(ol == ref_b64_declen(in, inlen), "decoded length");
		size_t i = nd_size();
		ASSUME(i < ol);
		CHECK(out[i] == ref_b64_decbyte(in, i), "decoded byte");
	}
	REACHED();
}

void h_hexify(void)
{
	size_t len = nd_size_le(MAXLEN);
	uint8_t * in = malloc(len);
	char * out = malloc(2 * len + 1);
	ND_BYTES_MAX(in, len, MAXLEN);
	hexify(in, out, len);
	size_t i = nd_size();
	ASSUME(i < len);
	CHECK(out[2 * i] == ref_hex_lc(in[i] >> 4) && out[2 * i + 1] == ref_hex_lc(in[i] & 15), "lowercase hex digits");
	CHECK(out[2 * len] == '\0', "NUL terminator");
	REACHED();
}

/* unhexify: input is either >= 2*len characters (object of exactly 2*len bytes) or a shorter NUL-terminated string */
void h_unhexify(void)
{
	size_t len = nd_size_le(MAXLEN);
	size_t n = nd_size_le(2 * len);
	size_t osz = (n < 2 * len) ? n + 1 : n;
	uint8_t * in = malloc(osz);
	uint8_t * out = malloc(len);
	ND_BYTES_MAX(in, osz, 2 * MAXLEN + 1);
	if (n < 2 * len) {
		in[n] = 0;
		for (size_t k = 0; k < 2 * MAXLEN; k++) if (k < n) ASSUME(in[k] != 0);
	}
	int rc = unhexify((const char *)in, out, len);
	int ok = (n == 2 * len);
	for (size_t k = 0; k < 2 * MAXLEN; k++) if (k < n && ref_hex_val(in[k]) < 0) ok = 0;
	CHECK((rc == 0) == ok, "accepts exactly [0-9a-fA-F]{2len}");
	CHECK(rc == 0 || rc == -1, "documented return values");
	if (rc == 0) {
		size_t i = nd_size();
		ASSUME(i < len);
		CHECK(out[i] == (uint8_t)(ref_hex_val(in[2 * i]) * 16 + ref_hex_val(in[2 * i + 1])), "decoded byte, either case");
	}
	REACHED();
}

void h_hexroundtrip(void)
{
	size_t len = nd_size_le(MAXLEN);
	uint8_t * in = malloc(len);
	char * hex = malloc(2 * len + 1);
	uint8_t * back = malloc(len);
	ND_BYTES_MAX(in, len, MAXLEN);
	hexify(in, hex, len);
	CHECK(unhexify(hex, back, len) == 0, "unhexify(hexify(x)) succeeds");
	size_t i = nd_size();
	ASSUME(i < len);
	CHECK(back[i] == in[i], "unhexify(hexify(x)) == x");
	REACHED();
}

/* endian routines: full width, any offset 0..7 inside an exact-size object */
void h_endian(void)
{
	size_t off = nd_size_le(7);
	uint64_t v = nd_u64();
	uint8_t * b;
	b = malloc(off + 2);
	be16enc(b + off, (uint16_t)v);
	CHECK(b[off] == (uint8_t)(v >> 8) && b[off + 1] == (uint8_t)v, "be16enc byte order");
	CHECK(be16dec(b + off) == (uint16_t)v, "be16 inverse");
	le16enc(b + off, (uint16_t)v);
	CHECK(b[off + 1] == (uint8_t)(v >> 8) && b[off] == (uint8_t)v, "le16enc byte order");
	CHECK(le16dec(b + off) == (uint16_t)v, "le16 inverse");
	b = malloc(off + 4);
	be32enc(b + off, (uint32_t)v);
	for (int i = 0; i < 4; i++) CHECK(b[off + i] == (uint8_t)(v >> (8 * (3 - i))), "be32enc byte order");
	CHECK(be32dec(b + off) == (uint32_t)v, "be32 inverse");
	le32enc(b + off, (uint32_t)v);
	for (int i = 0; i < 4; i++) CHECK(b[off + i] == (uint8_t)(v >> (8 * i)), "le32enc byte order");
	CHECK(le32dec(b + off) == (uint32_t)v, "le32 inverse");
	b = malloc(off + 8);
	be64enc(b + off, v);
	for (int i = 0; i < 8; i++) CHECK(b[off + i] == (uint8_t)(v >> (8 * (7 - i))), "be64enc byte order");
	CHECK(be64dec(b + off) == v, "be64 inverse");
	le64enc(b + off, v);
	for (int i = 0; i < 8; i++) CHECK(b[off + i] == (uint8_t)(v >> (8 * i)), "le64enc byte order");
	CHECK(le64dec(b + off) == v, "le64 inverse");
	/* dec(enc) for arbitrary bytes: enc(dec(bytes)) == bytes */
	uint8_t raw[8], re[8];
	ND_BYTES(raw, 8);
	be64enc(re, be64dec(raw));
	CHECK(memcmp(re, raw, 8) == 0, "be64 enc(dec(b)) == b");
	le64enc(re, le64dec(raw));
	CHECK(memcmp(re, raw, 8) == 0, "le64 enc(dec(b)) == b");
	be32enc(re, be32dec(raw)); CHECK(memcmp(re, raw, 4) == 0, "be32 enc(dec(b)) == b");
	le32enc(re, le32dec(raw)); CHECK(memcmp(re, raw, 4) == 0, "le32 enc(dec(b)) == b");
	be16enc(re, be16dec(raw)); CHECK(memcmp(re, raw, 2) == 0, "be16 enc(dec(b)) == b");
	le16enc(re, le16dec(raw)); CHECK(memcmp(re, raw, 2) == 0, "le16 enc(dec(b)) == b");
	REACHED();
}
