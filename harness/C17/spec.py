def obligations(tier):
    T = tier == "thorough"
    ml = 10 if T else 7
    mi = 12 if T else 8
    mh = 5 if T else 3
    obs = []
    def codec(name, entry, defs, us, claim, bounds, timeout=120):
        obs.append(dict(name=name, harness="codec.c", entry=entry, defs=defs, unwind=max(ml, mi, 2 * mh + 1) + 2, unwindset=us,
                        claim=claim, bounds=bounds, timeout=900 if T else timeout,
                        stubs=["strchr/memcmp: CBMC built-in C library models"]))
    SC = ["strchr.0:67"]
    # loops in source order: b64encode#0 = while(len), #1,#2 inner; b64decode#0 = validation, #1 = while(inlen), #2,#3 inner
    codec("b64encode-rfc4648", "h_b64encode", ["MAXLEN=%d" % ml], ["b64encode#0:%d" % (ml // 3 + 2)],
          "b64encode output character j equals the RFC 4648 reference for a nondeterministic j; exact-size in/out objects",
          "len <= %d, all byte values" % ml)
    codec("b64-roundtrip", "h_b64roundtrip", ["MAXLEN=%d" % ml], SC + ["b64encode#0:%d" % (ml // 3 + 2), "b64decode#0:%d" % (4 * ((ml + 2) // 3) + 1), "b64decode#1:%d" % ((ml + 2) // 3 + 1)],
          "b64decode(b64encode(x)) == x", "len <= %d" % ml)
    codec("b64decode-language", "h_b64decode", ["MAXIN=%d" % mi], SC + ["b64decode#0:%d" % (mi + 1), "b64decode#1:%d" % (mi // 4 + 1)],
          "b64decode accepts exactly: length%4==0, alphabet chars, <=2 trailing '='; value and length equal the reference; no access outside in[0..inlen), out[0..inlen/4*3)",
          "inlen <= %d over all 256 byte values (incl. NUL)" % mi)
    codec("hexify-lowercase", "h_hexify", ["MAXLEN=%d" % mh], ["hexify#0:%d" % (mh + 1)], "hexify is lowercase hex, NUL-terminated, exact-size output", "len <= %d" % mh)
    codec("unhexify-language", "h_unhexify", ["MAXLEN=%d" % mh], SC + ["unhexify#0:%d" % (2 * mh + 1), "unhexify#1:%d" % (mh + 1)],
          "unhexify accepts exactly [0-9a-fA-F]{2len} (shorter NUL-terminated strings rejected without over-read), value case-insensitive", "len <= %d" % mh)
    codec("hex-roundtrip", "h_hexroundtrip", ["MAXLEN=%d" % mh], SC + ["hexify#0:%d" % (mh + 1), "unhexify#0:%d" % (2 * mh + 1), "unhexify#1:%d" % (mh + 1)],
          "unhexify(hexify(x)) == x", "len <= %d" % mh)
    codec("endian-16-32-64", "h_endian", [], [], "be/le 16/32/64 enc/dec: defined byte order, mutually inverse both ways, any offset 0..7 in an exact-size object", "full width, offsets 0..7")
    mj = 8 if T else 6
    to = 1800 if T else 280
    for lo, hi in [(0, 4)] + [(k, k) for k in range(5, (12 if T else 10) + 1)]:
        obs.append(dict(name="json-match-str-semantic-n%d-%d" % (lo, hi), harness="jsem.c", entry="h_match_sem", defs=["NLO=%d" % lo, "MAXN=%d" % hi], unwind=hi + 4, timeout=to,
                        claim="match_str on every well-formed JSON string body of %d..%d bytes (simple escapes, \\uXXXX, no raw control characters) in an exact-size object: stops just after the closing quote; reports a match iff the decoded name equals the key and no \\u escape occurs" % (lo, hi),
                        bounds="%d..%d bytes of name text, keys of <= 2 characters (all byte values)" % (lo, hi), stubs=[]))
    for lo, hi in [(0, 5)] + [(k, k) for k in range(6, mj + 2)]:
        obs.append(dict(name="json-find-first-match-n%d-%d" % (lo, hi), harness="jsem.c", entry="h_find_sem", defs=["NLO=%d" % lo, "MAXN=%d" % hi], unwind=hi + 4, timeout=to,
                        replace=["match_str:stub_match", "skip_value:stub_value"], unwindset=["strchr.0:8"],
                        claim="json_find member loop on every buffer of %d..%d bytes with names and values abstracted (arbitrary extents and match flags): returns the value position (after ':' and white space) of the FIRST member whose name matched; end if the skeleton { \"..\" : v , ... is broken or nothing matches" % (lo, hi),
                        bounds="%d..%d bytes, <= 3 members" % (lo, hi), stubs=["match_str, skip_value -> contract stubs with pre-drawn answers"]))
    # socket addresses (util/sock_util.c, util/sock.c); harness shared with C15
    SST = ["inet_pton / inet_ntop -> logging contract stubs (the literal grammar is libc's)", "strdup -> exact-size model", "asprintf -> mini formatter (%s %d)", "strtoimax -> model", "warn -> empty"]
    for nl in [0, 1, 16, 28, 110]:
        obs.append(dict(name="sockaddr-serialize-roundtrip-namelen%d" % nl, harness="../C15/sockaddr.c", entry="h_roundtrip", defs=["NAMELEN=%d" % nl], vsrcs=["models/stub_warnp.c"], unwind=max(nl + 2, 8), timeout=to,
                        claim="sock_addr_serialize -> sock_addr_deserialize and sock_addr_dup return an address with the same family, type, length and name bytes (namelen %d, contents arbitrary); sock_addr_cmp is 0 exactly for equal addresses" % nl,
                        bounds="namelen %d (0, 1, sockaddr_in, sockaddr_in6, sockaddr_un)" % nl, stubs=["warn -> empty"]))
    for lo, hi in [(5, 7), (8, 8), (9, 9)] + ([(10, 10)] if T else []):
        obs.append(dict(name="sock-resolve-ipv6-len%d-%d" % (lo, hi), harness="../C15/sockaddr.c", entry="h_v6", defs=["MINL=%d" % lo, "MAXL=%d" % hi], vsrcs=["models/stub_warnp.c"], replace=["sock_resolve_host:stub_host"], unwind=max(hi + 4, 18), timeout=to, flags=["--object-bits", "10"],
                        claim="sock_resolve on every well-formed '[...:...]:port' string of %d..%d characters: the text between the brackets goes to inet_pton(AF_INET6) once, result = sockaddr_in6 {AF_INET6, htons(port), flow 0, parsed address, scope 0}" % (lo, hi),
                        bounds="length %d..%d" % (lo, hi), stubs=SST))
    for fam, nt, pd in [(4, 7, 1), (4, 7, 5), (4, 15, 2), (6, 2, 3), (6, 9, 5), (1, 5, 0), (1, 20, 0)]:
        obs.append(dict(name="sockaddr-prettyprint-resolves-back-%s-len%d-portdigits%d" % ({4: "ipv4", 6: "ipv6", 1: "unix"}[fam], nt, pd), harness="../C15/sockaddr.c", entry="h_pretty", defs=["FAM=%d" % fam, "NTLEN=%d" % nt, "PDIG=%d" % max(pd, 1)], vsrcs=["models/stub_warnp.c"], replace=["sock_resolve_host:stub_host"], unwind=(115 if fam == 1 else max(nt + 12, 40)), timeout=to, flags=["--object-bits", "10"],
                        claim="sock_addr_prettyprint of an arbitrary %s address (port 1..65535) followed by sock_resolve gives back exactly one address equal to the original (inet_pton taken as the inverse of inet_ntop on its own output, literal of %d characters)" % ({4: "IPv4", 6: "IPv6", 1: "Unix-path"}[fam], nt),
                        bounds="literal / path length %d, every port with %d decimal digits" % (nt, pd), stubs=SST))
    for nlst in (0, 1, 2):
        obs.append(dict(name="sockaddr-duplist-n%d" % nlst, harness="../C15/sockaddr.c", entry="h_duplist", defs=["NLIST=%d" % nlst, "NAMELEN=16"], vsrcs=["models/stub_warnp.c"], unwind=20, timeout=to, flags=["--memory-leak-check"],
                        claim="sock_addr_duplist of a list of %d addresses: a NULL-terminated list of the same length whose elements are fresh copies, in order; nothing leaked" % nlst, bounds="%d addresses of 16 bytes" % nlst, stubs=["warn -> empty"]))
    for nres in (1, 2, 3):
        obs.append(dict(name="sock-resolve-one-n%d" % nres, harness="../C15/sockaddr.c", entry="h_resolve_one", defs=["NRES=%d" % nres], vsrcs=["models/stub_warnp.c"], replace=["sock_resolve:stub_resolve", "sock_resolve_host:stub_host"], unwind=20, timeout=to, flags=["--memory-leak-check"],
                        claim="sock_resolve_one: the first of the %d resolved addresses is returned, every other address and the list are released; NULL when resolution fails" % nres, bounds="%d addresses" % nres, stubs=["sock_resolve -> scripted list", "warn -> empty"]))
    for lo, hi in [(0, 4), (5, 5), (6, 6)]:
        obs.append(dict(name="sock-ensure-port-len%d-%d" % (lo, hi), harness="../C15/sockaddr.c", entry="h_ensure_port", defs=["MINL=%d" % lo, "MAXL=%d" % hi], vsrcs=["models/stub_warnp.c"], replace=["sock_resolve_host:stub_host"], unwind=max(hi + 4, 18), timeout=to, flags=["--object-bits", "10"],
                        claim="sock_addr_ensure_port on every string of %d..%d characters in an exact-size object: reads only the string; returns the string unchanged if it starts with ':' or '/', is an unbracketed text containing ':', or a bracketed text whose last ':' follows ']'; otherwise with \":0\" appended; exact-size result" % (lo, hi),
                        bounds="length %d..%d, all byte values" % (lo, hi), stubs=SST))
    return obs

TRUSTED = ["CBMC 6.11 C semantics and its string.h models (strchr, memcmp)", "cadical SAT solver", "refs/ref_codec.h (RFC 4648 / hex reference written from the RFC text)"]
ASSUMPTIONS = ["b64decode reference language does not require canonical zero padding bits (RFC 4648 3.5 'MAY reject'); the code accepts them, so does the reference"]
EXPLANATION = "Codecs are executed symbolically on exact-size heap objects with symbolic length and content; the solver decides equality with an independent reference at a nondeterministically chosen index (universal generalisation)."
