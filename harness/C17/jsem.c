/*
 * C17 (json_find, semantic part).
 *   h_match_sem  match_str on every WELL-FORMED JSON string body of <= MAXN bytes (in an exact-size object) against a
 *                reference decoder: returns the position after the closing quote, and foundit == (the name, after
 *                decoding the simple backslash escapes, equals the key AND it contains no \u escape).
 *   h_find_sem   json_find's member loop with match_str and skip_value rebound to contract stubs whose answers
 *                (bytes consumed, match flag) are drawn up front: the result is the position of the value of the FIRST
 *                member whose name matched, after ':' and white space; `end` when the skeleton is broken or no name
 *                matches.  (What "the name matches" and "skip one value" mean on real text are h_match_sem and the
 *                modular C15 obligations.)
 */
#include <stdint.h>
#include <stdlib.h>
#include <string.h>
#include "vh.h"
struct dummy_;
const uint8_t * stub_match(const uint8_t *, const uint8_t *, const char *, int *);
const uint8_t * stub_value(const uint8_t *, const uint8_t *);
#include "json.c"
#ifndef MAXN
#define MAXN 7
#endif
#ifndef NLO
#define NLO 0
#endif

static int ws(uint8_t c) { return c == ' ' || c == '\t' || c == '\n' || c == '\r'; }
static int hexd(uint8_t c) { return (c >= '0' && c <= '9') || (c >= 'a' && c <= 'f') || (c >= 'A' && c <= 'F'); }
/* reference: decode the string body starting at b[0] (just after the opening quote); returns 0 if not well-formed
 * within n bytes, else 1 with the decoded characters, the number of bytes consumed (incl. closing quote), \u flag */
static int ref_name(const uint8_t * b, size_t n, uint8_t * dec, size_t * dl, size_t * used, int * has_u)
{
	size_t i = 0, k = 0; *has_u = 0;
	for (size_t it = 0; it <= MAXN; it++) {
		if (i >= n) return 0;
		uint8_t c = b[i++];
		if (c == '"') { *dl = k; *used = i; return 1; }
		if (c < 0x20) return 0;	/* control characters must be escaped */
		if (c == '\\') {
			if (i >= n) return 0;
			uint8_t e = b[i++];
			if (e == '"' || e == '\\' || e == '/') c = e;
			else if (e == 'b') c = 8; else if (e == 'f') c = 12; else if (e == 'n') c = 10; else if (e == 'r') c = 13; else if (e == 't') c = 9;
			else if (e == 'u') { if (i + 4 > n) return 0; for (int j = 0; j < 4; j++) if (!hexd(b[i + j])) return 0; i += 4; *has_u = 1; c = 0; }
			else return 0;
		}
		dec[k++] = c;
	}
	return 0;
}
void h_match_sem(void)
{
	for (size_t n = NLO; n <= MAXN; n++) {
		uint8_t * base = malloc(n);
		if (n > 0 && base == NULL) continue;
		for (size_t i = 0; i < n; i++) base[i] = nd_u8();
		char key[3]; key[0] = (char)nd_u8(); key[1] = (char)nd_u8(); key[2] = 0;
		size_t kl = key[0] == 0 ? 0 : key[1] == 0 ? 1 : 2;
		uint8_t dec[MAXN + 1]; size_t dl = 0, used = 0; int has_u = 0;
		if (ref_name(base, n, dec, &dl, &used, &has_u)) {
			int found = 7;
			const uint8_t * r = match_str(base, base + n, key, &found);
			CHECK(r == base + used, "match_str stops just after the closing quote of a well-formed name");
			int eq = !has_u && dl == kl;
			for (size_t i = 0; i < 2; i++) if (i < kl && i < dl && dec[i] != (uint8_t)key[i]) eq = 0;
			CHECK(found == eq, "name matches iff its decoded characters equal the key and it has no \\u escape");
			if (n == MAXN) REACHED();
		}
		free(base);
	}
}

/* ---- h_find_sem ---- */
#define NM 3
static int mi, vi, st_bad; static size_t m_use[NM], v_use[NM]; static int m_found[NM]; static const char * KEY;
const uint8_t * stub_match(const uint8_t * buf, const uint8_t * end, const char * s, int * foundit)
{
	if (!(buf <= end) || s != KEY || mi >= NM) { st_bad = 1; *foundit = 0; return end; }
	size_t room = (size_t)(end - buf), k = m_use[mi] <= room ? m_use[mi] : room;
	*foundit = m_found[mi]; mi++;
	return buf + k;
}
const uint8_t * stub_value(const uint8_t * buf, const uint8_t * end)
{
	if (!(buf <= end) || vi >= NM) { st_bad = 1; return end; }
	size_t room = (size_t)(end - buf), k = v_use[vi] <= room ? v_use[vi] : room;
	vi++;
	return buf + k;
}
/* reference walk over the same bytes with the same stub answers */
static size_t skipws(const uint8_t * b, size_t i, size_t n) { for (size_t it = 0; it <= MAXN; it++) if (i < n && ws(b[i])) i++; return i; }
static size_t ref_find(const uint8_t * b, size_t n)
{
	size_t i = skipws(b, 0, n);
	if (i >= n || b[i] != '{') return n; i++;
	for (int m = 0; m < NM; m++) {
		i = skipws(b, i, n); if (i >= n || b[i] != '"') return n; i++;
		i += (m_use[m] <= n - i) ? m_use[m] : n - i;
		i = skipws(b, i, n); if (i >= n || b[i] != ':') return n; i++;
		i = skipws(b, i, n);
		if (m_found[m]) return i;
		i += (v_use[m] <= n - i) ? v_use[m] : n - i;
		i = skipws(b, i, n); if (i >= n || b[i] != ',') return n; i++;
	}
	return (size_t)-1;	/* more members than the harness bound */
}
void h_find_sem(void)
{
	static char key[2] = "k"; KEY = key;
	for (int m = 0; m < NM; m++) { m_use[m] = nd_size(); v_use[m] = nd_size(); m_found[m] = nd_bool(); }
	for (size_t n = NLO; n <= MAXN; n++) {
		uint8_t * base = malloc(n);
		if (n > 0 && base == NULL) continue;
		for (size_t i = 0; i < n; i++) base[i] = nd_u8();
		mi = vi = 0;
		size_t e = ref_find(base, n);
		if (e != (size_t)-1) {
			const uint8_t * r = json_find(base, base + n, key);
			CHECK(!st_bad, "match_str / skip_value are called inside the buffer, with the caller's key, once per member");
			CHECK(r == base + e, "json_find returns the value position of the first member whose name matched (after ':' and white space), else end");
			if (n == MAXN) REACHED();
		}
		free(base);
	}
}
