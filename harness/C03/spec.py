MZ = ["util/insecure_memzero.c"]

def obligations(tier):
    T = tier == "thorough"
    to = 1800 if T else 280
    obs = []
    X = ["x86 intrinsics -> models/x86/vh_x86.h (validated against this CPU on every run)"]
    for lo in range(16, 64, 4):
        obs.append(dict(name="sha256-sse2-schedule-%d-%d" % (lo, lo + 4), harness="sha_accel.c", entry="h_sse2_sched", defs=["USE_SSE2", "TLO=%d" % lo, "THI=%d" % (lo + 4)],
                        cpu=["X86_SSE2"], model_inc=["x86"], unwind=100, flags=["--no-standard-checks"], backends=["cadical", "kissat"] if T else ["cadical"], timeout=to,
                        claim="SHA256_Transform_sse2: W[0..15] = BE words of the block; schedule recurrence holds at t in [%d,%d) over the W[] the real code produced" % (lo, lo + 4), bounds="none", stubs=X))
    obs.append(dict(name="sha256-sse2-rounds", harness="sha_accel.c", entry="h_sse2_rounds", defs=["USE_SSE2"], cpu=["X86_SSE2"], model_inc=["x86"], unwind=100,
                    flags=["--no-standard-checks"], backends=["z3tactic", "cadical"], timeout=to,
                    claim="SHA256_Transform_sse2: new state == state + 64 FIPS rounds over the returned schedule (with the schedule obligations: == FIPS 180-4 compression)", bounds="none", stubs=X))
    obs.append(dict(name="sha256-sse2-memory-safe", harness="sha_accel.c", entry="h_sse2_sched", defs=["USE_SSE2", "TLO=16", "THI=17"], cpu=["X86_SSE2"], model_inc=["x86"], unwind=100,
                    backends=["cadical"], timeout=to, claim="no out-of-bounds access or UB in SHA256_Transform_sse2 (all checks on)", bounds="none", stubs=X))
    SH = dict(cpu=["X86_SHANI", "X86_SSSE3"], model_inc=["x86"], unwind=100, replace=["vhm_mm_sha256rnds2_epu32:log_rnds2"])
    for lo in range(16, 64, 4):
        obs.append(dict(name="sha256-shani-schedule-%d-%d" % (lo, lo + 4), harness="sha_accel.c", entry="h_shani_sched", defs=["USE_SHANI", "TLO=%d" % lo, "THI=%d" % (lo + 4)],
                        flags=["--no-standard-checks"], backends=["cadical", "kissat"] if T else ["cadical"], timeout=to,
                        claim="SHA256_Transform_shani: the W+K operands consumed by the 32 SHA256RNDS2 instructions are K[t] + W[t] with W[0..15] = BE block words and the FIPS recurrence at t in [%d,%d)" % (lo, lo + 4),
                        bounds="none", stubs=X + ["SHA256RNDS2 -> logging wrapper around the same model core"], **SH))
    obs.append(dict(name="sha256-shani-round-sequencing", harness="sha_accel.c", entry="h_shani_seq", defs=["USE_SHANI"], cpu=["X86_SHANI", "X86_SSSE3"], model_inc=["x86"], unwind=100,
                    replace=["vhm_mm_sha256rnds2_epu32:uf_rnds2"], backends=["cadical"], timeout=to,
                    claim="SHA256_Transform_shani with SHA256RNDS2 uninterpreted: lanes (A,B,E,F)/(C,D,G,H) loaded from the state, 32 chained instructions, feed-forward and un-shuffle; with the model lemma (SHA256RNDS2 = two FIPS rounds) and the schedule obligations: == FIPS 180-4",
                    bounds="none", stubs=X + ["SHA256RNDS2 -> logging uninterpreted function"]))
    # the 64 rounds over the logged schedule as one query (h_shani_rounds) and the whole-function miter (h_shani without SAFETY_ONLY) had no verdict in
    # 1800 s on z3tactic/cadical/kissat (thorough runs 2 and 3); the decomposition above is what decides SHA-NI, so they are not registered
    obs.append(dict(name="sha256-shani-memory-safe", harness="sha_accel.c", entry="h_shani", defs=["USE_SHANI", "SAFETY_ONLY"], cpu=["X86_SHANI", "X86_SSSE3"], model_inc=["x86"], unwind=100,
                    backends=["cadical"], timeout=to, claim="no out-of-bounds access or UB in SHA256_Transform_shani", bounds="none", stubs=X))
    obs.append(dict(name="sha256rnds2-model-lemma", harness="sha_accel.c", entry="h_shani_model_lemma", defs=["USE_SHANI"], cpu=["X86_SHANI", "X86_SSSE3"], model_inc=["x86"], unwind=100,
                    backends=["cadical"], timeout=to, claim="SHA256RNDS2 model == two FIPS 180-4 rounds in the reference's forms", bounds="none", stubs=X))
    cl = 40 if T else 16
    for nm, cpu in (("64", ["X86_SSE42", "X86_SSE42_64"]), ("32", ["X86_SSE42"])):
        for lo in range(8, (cl if (T or nm == "64") else 12) + 1, 5):
            hi = min(lo + 4, cl)
            for safety in (0, 1):
                obs.append(dict(name="crc32c-sse42-%s-%s-len%d-%d" % (nm, "memory-safe" if safety else "equals-lfsr", lo, hi), harness="crc_sse42.c", entry="h_sse42",
                                defs=["MINLEN=%d" % lo, "MAXLEN=%d" % hi] + (["SAFETY_ONLY"] if safety else []), cpu=cpu, model_inc=["x86"], unwind=cl + 12,
                                flags=["--object-bits", "12"] + ([] if safety else ["--no-standard-checks"]), backends=["cadical"], timeout=to,
                                claim=("CRC32C_Update_SSE42 (%s-bit CRC32 instruction variant): " % nm) + ("no access outside [buf, buf+len) (exact-size objects), no UB" if safety else "== bit-serial Castagnoli LFSR") +
                                      " for every len in [%d,%d] x alignment 0..7 (enumerated concretely by the harness loops; state and content symbolic)" % (lo, hi),
                                bounds="%d <= len <= %d" % (lo, hi), stubs=X))
    ALLX = ["X86_SHANI", "X86_SSSE3", "X86_SSE2", "X86_SSE42", "X86_SSE42_64", "X86_AESNI"]
    for which, ent, nm, what in ((1, "h_sha_route", "sha256-dispatch-route", "SHA256_Transform with a symbolic selector (software / SHA-NI / SSE2 / unset) runs exactly the selected implementation on unchanged arguments"),
                                 (1, "h_sha_init", "sha256-dispatch-selftest", "SHA-256 hwaccel_init with arbitrary CPUID answers and arbitrary self-test outcomes: selector in range, accelerated only if feature present AND self-test passed, else software"),
                                 (2, "h_crc_route", "crc32c-dispatch", "CRC32C_Init/Update: SSE4.2 selected only with CPU support and passing self-test; calls with len >= 8 go entirely to the accelerated routine with the current state, shorter calls inside the same stream to the portable code"),
                                 (3, "h_aes_route", "aes-dispatch", "crypto_aes_*: AES-NI selected only with CPU support and both FIPS vectors right; expand/encrypt/free all follow the selector")):
        obs.append(dict(name=nm, harness="dispatch.c", entry=ent, defs=["WHICH=%d" % which], cpu=ALLX, model_inc=["x86"], srcs=MZ, unwind=300,
                        unwindset=["insecure_memzero_func.0:400", "CRC32C_Update#0?:5", "CRC32C_Update#1?:5"], backends=["cadical"], timeout=to, claim=what, bounds="none (crc: len <= 12)",
                        stubs=["accelerated implementations -> logging stubs", "cpusupport_*_detect -> nondeterministic", "OpenSSL AES -> logging stubs"]))
    obs.append(dict(name="aesctr-dispatch-stream-step", harness="../C02/ctr.c", entry="h_stream_step", defs=["PATH=2", "MAXLEN=%d" % (70 if T else 40)], cpu=["X86_AESNI"], model_inc=["x86"],
                    srcs=MZ + ["crypto/crypto_aesctr_aesni.c"], unwind=90,
                    unwindset=["insecure_memzero_func.0:400", "libcperciva_crypto_aesctr_stream#0?:7", "crypto_aesctr_stream_cipherblock_use#0?:18", "crypto_aesctr_aesni_stream_wholeblocks#0?:7"],
                    backends=["cadical"], timeout=to,
                    claim="crypto_aesctr_stream in an AES-NI build with a SYMBOLIC selector (threshold buflen >= 16): same step specification as C02 whichever path runs, from an arbitrary stream state (so calls may switch path inside one stream)",
                    bounds="buflen <= 40 (70 thorough)", stubs=["block cipher -> uninterpreted E"] + X))
    obs.append(dict(name="crc32c-serial-forms-agree", harness="crc_sse42.c", entry="h_serial_forms", cpu=["X86_SSE42"], model_inc=["x86"], unwind=20, timeout=to,
                    claim="the two textbook formulations of the bit-serial LFSR byte step (C01's and the CRC32-instruction style) are the same function", bounds="none", stubs=[]))
    return obs

SELFTESTS = [dict(name="x86-models-vs-hardware", srcs=["/verif/models/x86/selftest_x86.c"], cflags=["-msse4.2", "-mssse3", "-maes", "-msha", "-iquote", "/verif/models/x86"],
                  what="every intrinsic model in models/x86/vh_x86.h equals the real instruction on this CPU for 200000 operand sets"),
             dict(name="ref-hash-vs-hashlib", script="refs/selftest_hash.py", what="refs/ref_hash.h agrees with Python hashlib")]
TRUSTED = ["CBMC 6.11 C semantics", "cadical/kissat/z3", "models/x86/vh_x86.h", "refs/ref_hash.h"]
ASSUMPTIONS = ["ARM code paths (*_arm.c) are not compilable for this host and are outside the claim", "RDRAND is covered under C11, not here"]
EXPLANATION = ""
