/*
 * C03: SHA-256 accelerated compression functions == the same FIPS 180-4 reference as C01,
 * over the intrinsic models (models/x86), in configurations selected by the harness, not by the host CPU.
 *   h_sse2_sched  : W[0..15] big-endian load and the message-schedule recurrence over the W[] the real code wrote
 *   h_sse2_rounds : 64 rounds over that same W[] + final addition == reference
 *   h_shani       : whole SHA256_Transform_shani == reference
 */
#include <stdint.h>
#include <string.h>
#include "vh.h"
#include "ref_hash.h"
#ifndef TLO
#define TLO 16
#define THI 20
#endif
#ifdef USE_SSE2
#include "sha256_sse2.c"
#endif
#ifdef USE_SHANI
#include "sha256_shani.c"
#endif

static void ref_rounds_on_W(uint32_t v[8], const uint32_t W[64])
{
	uint32_t a=v[0],b=v[1],c=v[2],d=v[3],e=v[4],f=v[5],g=v[6],h=v[7],T1,T2;
	for (int t = 0; t < 64; t++) {
		T1 = h + (ref_rotr(e,6)^ref_rotr(e,11)^ref_rotr(e,25)) + ((e & (f ^ g)) ^ g) + REF_K256[t] + W[t];
		T2 = (ref_rotr(a,2)^ref_rotr(a,13)^ref_rotr(a,22)) + ((a & (b | c)) | (b & c));
		h=g;g=f;f=e;e=d+T1;d=c;c=b;b=a;a=T1+T2;
	}
	v[0]=a;v[1]=b;v[2]=c;v[3]=d;v[4]=e;v[5]=f;v[6]=g;v[7]=h;
}

#ifdef USE_SSE2
void h_sse2_sched(void)
{
	uint32_t st[8], W[64], S[8]; uint8_t blk[64];
	for (int i = 0; i < 8; i++) st[i] = nd_u32();
	for (int i = 0; i < 64; i++) blk[i] = nd_u8();
	SHA256_Transform_sse2(st, blk, W, S);
	for (int t = 0; t < 16; t++)
		CHECK(W[t] == (((uint32_t)blk[4*t]<<24)|((uint32_t)blk[4*t+1]<<16)|((uint32_t)blk[4*t+2]<<8)|blk[4*t+3]), "W[0..15] = big-endian words of the block");
	int t = nd_int_in(TLO, THI - 1);
	CHECK(W[t] == (ref_rotr(W[t-2],17)^ref_rotr(W[t-2],19)^(W[t-2]>>10)) + W[t-7] + (ref_rotr(W[t-15],7)^ref_rotr(W[t-15],18)^(W[t-15]>>3)) + W[t-16], "message schedule recurrence W[t] = s1(W[t-2]) + W[t-7] + s0(W[t-15]) + W[t-16]");
	REACHED();
}
void h_sse2_rounds(void)
{
	uint32_t st[8], st0[8], W[64], S[8], v[8]; uint8_t blk[64];
	for (int i = 0; i < 8; i++) st0[i] = st[i] = nd_u32();
	for (int i = 0; i < 64; i++) blk[i] = nd_u8();
	SHA256_Transform_sse2(st, blk, W, S);
	for (int i = 0; i < 8; i++) v[i] = st0[i];
	ref_rounds_on_W(v, W);
	for (int i = 0; i < 8; i++) CHECK(st[i] == st0[i] + v[i], "64 rounds over the schedule + feed-forward == FIPS 180-4");
	REACHED();
}
#endif

#ifdef USE_SHANI
void h_shani(void)
{
	uint32_t s1[8], s2[8]; uint8_t blk[64];
	for (int i = 0; i < 8; i++) s1[i] = s2[i] = nd_u32();
	for (int i = 0; i < 64; i++) blk[i] = nd_u8();
	SHA256_Transform_shani(s1, blk);
#ifndef SAFETY_ONLY
	ref_sha256_compress(s2, blk);
	for (int i = 0; i < 8; i++) CHECK(s1[i] == s2[i], "SHA-NI compression function equals FIPS 180-4");
#endif
	REACHED();
}
/*
 * SHA-NI has no scratch out-parameters, so the cut point is the round instruction itself: SHA256RNDS2 is rebound
 * (--replace-calls) to a wrapper that logs its W+K operand and then runs the same model core.  From the log,
 * W[t] := wk[t] - K[t]; the schedule is checked as a local recurrence over those W[t] (windows), and the state
 * as 64 reference rounds over the same W[t].  As one monolithic miter no back end answers in 280 s.
 */
static vh_m128i LOGWK[32];
static int nlog;
vh_m128i log_rnds2(vh_m128i a, vh_m128i b, vh_m128i wk)
{
	if (nlog < 32) LOGWK[nlog] = wk;
	nlog++;
	return vhm_sha256rnds2_core(a, b, wk);
}
#define WLOG(t) (LOGWK[(t) / 2].d[(t) % 2] - REF_K256[t])
#ifndef TLO
#define TLO 16
#define THI 20
#endif
void h_shani_sched(void)
{
	uint32_t st[8]; uint8_t blk[64];
	for (int i = 0; i < 8; i++) st[i] = nd_u32();
	for (int i = 0; i < 64; i++) blk[i] = nd_u8();
	SHA256_Transform_shani(st, blk);
	CHECK(nlog == 32, "32 SHA256RNDS2 instructions = 64 rounds");
	for (int t = 0; t < 16; t++)
		CHECK(WLOG(t) == (((uint32_t)blk[4*t]<<24)|((uint32_t)blk[4*t+1]<<16)|((uint32_t)blk[4*t+2]<<8)|blk[4*t+3]), "rounds 0..15 consume K[t] + big-endian words of the block");
	int t = nd_int_in(TLO, THI - 1);
	CHECK(WLOG(t) == (ref_rotr(WLOG(t-2),17)^ref_rotr(WLOG(t-2),19)^(WLOG(t-2)>>10)) + WLOG(t-7) + (ref_rotr(WLOG(t-15),7)^ref_rotr(WLOG(t-15),18)^(WLOG(t-15)>>3)) + WLOG(t-16), "round t consumes K[t] + W[t] with W[t] = s1(W[t-2]) + W[t-7] + s0(W[t-15]) + W[t-16]");
	REACHED();
}
void h_shani_rounds(void)
{
	uint32_t st[8], st0[8], v[8], W[64]; uint8_t blk[64];
	for (int i = 0; i < 8; i++) st0[i] = st[i] = nd_u32();
	for (int i = 0; i < 64; i++) blk[i] = nd_u8();
	SHA256_Transform_shani(st, blk);
	for (int t = 0; t < 64; t++) W[t] = WLOG(t);
	for (int i = 0; i < 8; i++) v[i] = st0[i];
	ref_rounds_on_W(v, W);
	for (int i = 0; i < 8; i++) CHECK(st[i] == st0[i] + v[i], "state shuffles + 32 x SHA256RNDS2 + feed-forward == 64 FIPS rounds over the consumed schedule");
	REACHED();
}
/* round sequencing with SHA256RNDS2 uninterpreted: ABEF/CDGH roles, chaining, feed-forward and un-shuffling */
static int useq, seq_bad;
static vh_m128i abef_cur, cdgh_cur, abef0, cdgh0;
static int eq128(vh_m128i a, vh_m128i b) { return a.d[0] == b.d[0] && a.d[1] == b.d[1] && a.d[2] == b.d[2] && a.d[3] == b.d[3]; }
vh_m128i uf_rnds2(vh_m128i src1, vh_m128i src2, vh_m128i wk)
{
	(void)wk;
	if (!(eq128(src2, abef_cur) && eq128(src1, cdgh_cur))) seq_bad = 1;
	vh_m128i out; for (int i = 0; i < 4; i++) out.d[i] = nd_u32();
	cdgh_cur = abef_cur;	/* two rounds later the old A,B,E,F are the new C,D,G,H */
	abef_cur = out;
	useq++;
	return out;
}
void h_shani_seq(void)
{
	uint32_t st[8], st0[8]; uint8_t blk[64];
	for (int i = 0; i < 8; i++) st0[i] = st[i] = nd_u32();
	for (int i = 0; i < 64; i++) blk[i] = nd_u8();
	abef_cur.d[3] = st0[0]; abef_cur.d[2] = st0[1]; abef_cur.d[1] = st0[4]; abef_cur.d[0] = st0[5];
	cdgh_cur.d[3] = st0[2]; cdgh_cur.d[2] = st0[3]; cdgh_cur.d[1] = st0[6]; cdgh_cur.d[0] = st0[7];
	abef0 = abef_cur; cdgh0 = cdgh_cur;
	SHA256_Transform_shani(st, blk);
	CHECK(useq == 32, "32 SHA256RNDS2 instructions");
	CHECK(!seq_bad, "each SHA256RNDS2 gets (C,D,G,H) = previous (A,B,E,F) and (A,B,E,F) = previous result, starting from the state in the right lanes");
	CHECK(st[0] == st0[0] + abef_cur.d[3] && st[1] == st0[1] + abef_cur.d[2] && st[4] == st0[4] + abef_cur.d[1] && st[5] == st0[5] + abef_cur.d[0], "feed-forward and un-shuffle of A,B,E,F");
	CHECK(st[2] == st0[2] + cdgh_cur.d[3] && st[3] == st0[3] + cdgh_cur.d[2] && st[6] == st0[6] + cdgh_cur.d[1] && st[7] == st0[7] + cdgh_cur.d[0], "feed-forward and un-shuffle of C,D,G,H");
	REACHED();
}
/* the three SHA instruction models equal the textbook definitions in the reference's own forms */
void h_shani_model_lemma(void)
{
	vh_m128i cdgh, abef, wk;
	for (int i = 0; i < 4; i++) { cdgh.d[i] = nd_u32(); abef.d[i] = nd_u32(); wk.d[i] = nd_u32(); }
	uint32_t a = abef.d[3], b = abef.d[2], e = abef.d[1], f = abef.d[0], c = cdgh.d[3], d = cdgh.d[2], g = cdgh.d[1], h = cdgh.d[0];
	for (int t = 0; t < 2; t++) {
		uint32_t T1 = h + (ref_rotr(e,6)^ref_rotr(e,11)^ref_rotr(e,25)) + ((e & (f ^ g)) ^ g) + wk.d[t];
		uint32_t T2 = (ref_rotr(a,2)^ref_rotr(a,13)^ref_rotr(a,22)) + ((a & (b | c)) | (b & c));
		h=g;g=f;f=e;e=d+T1;d=c;c=b;b=a;a=T1+T2;
	}
	vh_m128i r = vhm_mm_sha256rnds2_epu32(cdgh, abef, wk);
	CHECK(r.d[3] == a && r.d[2] == b && r.d[1] == e && r.d[0] == f, "SHA256RNDS2 model = two FIPS rounds");
	REACHED();
}
#endif
