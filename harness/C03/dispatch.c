/*
 * C03: run-time selection.  In a build with every x86 feature compiled in, for EVERY value of the selector:
 * SHA256_Transform / CRC32C_Update / crypto_aes_* route to exactly one implementation with unchanged arguments,
 * and hwaccel_init never selects a path whose self-test failed or whose CPU feature is absent.
 * The accelerated implementations are logging stubs here; their equivalence with the portable code is the
 * subject of the other C03/C02 obligations.
 */
#include <stdint.h>
#include <stdlib.h>
#include <string.h>
#include "vh.h"
#include "cpudetect.h"
#include "stub_warnp.c"
#if WHICH == 1	/* ---------------- SHA-256 ---------------- */
#include "sha256.c"
VH_CPU_FEATURE(x86, shani) VH_CPU_FEATURE(x86, ssse3) VH_CPU_FEATURE(x86, sse2)
static int n_shani, n_sse2; static uint32_t * a_state; static const uint8_t * a_block; static int selftest_mode, st_shani_ok, st_sse2_ok;
void SHA256_Transform_shani(uint32_t * state, const uint8_t * block)
{
	n_shani++; a_state = state; a_block = block;
	if (selftest_mode && !st_shani_ok) state[0] ^= 1;	/* a failing self-test = a wrong answer on the test vector */
	if (selftest_mode && st_shani_ok) { uint32_t W[64], S[8]; int h = hwaccel; hwaccel = HW_SOFTWARE; SHA256_Transform(state, block, W, S); hwaccel = h; n_shani--; }
}
void SHA256_Transform_sse2(uint32_t * state, const uint8_t * block, uint32_t * W, uint32_t * S)
{
	n_sse2++; a_state = state; a_block = block;
	if (selftest_mode && !st_sse2_ok) state[0] ^= 1;
	if (selftest_mode && st_sse2_ok) { int h = hwaccel; hwaccel = HW_SOFTWARE; SHA256_Transform(state, block, W, S); hwaccel = h; n_sse2--; }
}
void h_sha_route(void)
{
	uint32_t st[8], st0[8], W[64], S[8]; uint8_t blk[64];
	for (int i = 0; i < 8; i++) st0[i] = st[i] = nd_u32();
	for (int i = 0; i < 64; i++) blk[i] = nd_u8();
	int sel = nd_int_in(0, 3);
	hwaccel = sel == 0 ? HW_SOFTWARE : sel == 1 ? HW_X86_SHANI : sel == 2 ? HW_X86_SSE2 : HW_UNSET;
	SHA256_Transform(st, blk, W, S);
	CHECK(n_shani == (sel == 1) && n_sse2 == (sel == 2), "exactly the selected implementation runs");
	if (sel == 1 || sel == 2) CHECK(a_state == st && a_block == blk, "state and block passed through unchanged");
	if (sel == 1 || sel == 2) for (int i = 0; i < 8; i++) CHECK(st[i] == st0[i], "portable code did not also run");
	REACHED();
}
void h_sha_init(void)
{
	selftest_mode = 1; st_shani_ok = nd_bool(); st_sse2_ok = nd_bool();
	hwaccel_init();
	int f_shani = cpusupport_x86_shani() && cpusupport_x86_ssse3(), f_sse2 = cpusupport_x86_sse2();
	CHECK(hwaccel == HW_SOFTWARE || hwaccel == HW_X86_SHANI || hwaccel == HW_X86_SSE2, "selector is one of the compiled-in implementations");
	if (hwaccel == HW_X86_SHANI) CHECK(f_shani && st_shani_ok, "SHA-NI only if the CPU reports SHA-NI+SSSE3 and the self-test passed");
	if (hwaccel == HW_X86_SSE2) CHECK(f_sse2 && st_sse2_ok, "SSE2 only if the CPU reports it and the self-test passed");
	if (!(f_shani && st_shani_ok) && !(f_sse2 && st_sse2_ok)) CHECK(hwaccel == HW_SOFTWARE, "software when nothing usable");
	hwaccel_init();	/* idempotent */
	REACHED();
}
#elif WHICH == 2	/* ---------------- CRC32C ---------------- */
#include "crc32c.c"
VH_CPU_FEATURE(x86, sse42)
static int n_hw; static uint32_t hw_state, hw_ret; static const uint8_t * hw_buf; static size_t hw_len; static int selftest_mode, st_ok;
uint32_t CRC32C_Update_SSE42(uint32_t state, const uint8_t * buf, size_t len)
{
	if (selftest_mode) { uint32_t good; memcpy(&good, testcase.crc, 4); return st_ok ? good : good ^ 1; }
	n_hw++; hw_state = state; hw_buf = buf; hw_len = len; hw_ret = nd_u32();
	return hw_ret;
}
void h_crc_route(void)
{
	CRC32C_CTX ctx; uint8_t buf[12];
	selftest_mode = 1; st_ok = nd_bool();
	CRC32C_Init(&ctx);
	selftest_mode = 0;
	CHECK(hwaccel == HW_SOFTWARE || (hwaccel == HW_X86_CRC32 && cpusupport_x86_sse42() && st_ok), "SSE4.2 selected only if the CPU reports it and the self-test passed");
	hwaccel = nd_bool() ? HW_X86_CRC32 : HW_SOFTWARE;
	uint32_t s0 = nd_u32(); ctx.state = s0;
	size_t len = nd_size_le(12);
	for (int i = 0; i < 12; i++) buf[i] = nd_u8();
	CRC32C_CTX sw = ctx;
	CRC32C_Update(&ctx, buf, len);
	if (hwaccel == HW_X86_CRC32 && len >= 8) {
		CHECK(n_hw == 1 && hw_state == s0 && hw_buf == buf && hw_len == len && ctx.state == hw_ret, "len >= 8: the whole call goes to the SSE4.2 routine with the current state; its result becomes the state");
	} else {
		CHECK(n_hw == 0, "short inputs and the software selection never touch the accelerated routine");
		int h = hwaccel; hwaccel = HW_SOFTWARE; CRC32C_Update(&sw, buf, len); hwaccel = h;
		CHECK(ctx.state == sw.state, "short input inside an accelerated stream is processed by the portable code on the same state");
	}
	REACHED();
}
#elif WHICH == 3	/* ---------------- AES ---------------- */
#include "crypto_aes.c"
VH_CPU_FEATURE(x86, aesni)
static int n_exp_hw, n_enc_hw, n_free_hw, n_set, n_enc_sw, st_ok; static char hwkey; static size_t hw_klen, sw_klen;
void * crypto_aes_key_expand_aesni(const uint8_t * k, size_t len) { (void)k; hw_klen = len; n_exp_hw++; return &hwkey; }
void crypto_aes_encrypt_block_aesni(const uint8_t * in, uint8_t * out, const void * key)
{
	n_enc_hw++;
	if (key == &hwkey && in != NULL) {	/* self-test traffic: right or wrong answer on the FIPS vectors */
		size_t t = hw_klen == 16 ? 0 : 1;	/* the two FIPS vectors share their plaintext and differ in key length */
		if (memcmp(in, testcases[t].ptext, 16) == 0) { memcpy(out, testcases[t].ctext, 16); if (!st_ok) out[0] ^= 1; }
	}
}
void crypto_aes_key_free_aesni(void * key) { (void)key; n_free_hw++; }
int AES_set_encrypt_key(const unsigned char * k, const int bits, AES_KEY * key) { (void)k; (void)key; sw_klen = (size_t)bits / 8; n_set++; return 0; }
void AES_encrypt(const unsigned char * in, unsigned char * out, const AES_KEY * key)
{
	(void)key; n_enc_sw++;
	size_t t = sw_klen == 16 ? 0 : 1;
	if (memcmp(in, testcases[t].ptext, 16) == 0) memcpy(out, testcases[t].ctext, 16);
}
void h_aes_route(void)
{
	uint8_t key[32], in[16], out[16];
	st_ok = nd_bool();
	int r = crypto_aes_can_use_intrinsics();
	CHECK(r == 0 || (r == 1 && cpusupport_x86_aesni() && st_ok), "AES-NI selected only if the CPU reports it and both FIPS self-test vectors came back right");
	CHECK((r == 1) == (hwaccel == HW_X86_AESNI), "reported selection = selector");
	hwaccel = nd_bool() ? HW_X86_AESNI : HW_SOFTWARE;
	n_exp_hw = n_enc_hw = n_free_hw = n_set = n_enc_sw = 0;
	for (int i = 0; i < 32; i++) key[i] = nd_u8();
	struct crypto_aes_key * k = crypto_aes_key_expand(key, nd_bool() ? 16 : 32);
	ASSUME(k != NULL);
	for (int i = 0; i < 16; i++) in[i] = (uint8_t)(nd_u8() | 0x80);	/* not a self-test plaintext */
	crypto_aes_encrypt_block(in, out, k);
	crypto_aes_key_free(k);
	if (hwaccel == HW_X86_AESNI) CHECK(n_exp_hw == 1 && n_enc_hw == 1 && n_free_hw == 1 && n_set == 0 && n_enc_sw == 0, "AES-NI selection: expand, encrypt and free all go to the AES-NI routines");
	else CHECK(n_exp_hw == 0 && n_enc_hw == 0 && n_free_hw == 0 && n_set == 1 && n_enc_sw == 1, "software selection: OpenSSL only");
	REACHED();
}
#endif
