/* C03: CRC32C_Update_SSE42 over the CRC32 instruction models == bit-serial Castagnoli LFSR; reads only [buf, buf+len) */
#include <stdint.h>
#include <stdlib.h>
#include <string.h>
#include "vh.h"
#include "crc32c_sse42.c"
#ifndef MAXLEN
#define MAXLEN 24
#endif
/* C01's reference (input bit XOR low state bit, shift, conditional XOR of the reflected polynomial) */
static uint32_t ref_lfsr_byte_c01(uint32_t s, uint8_t b)
{
	for (int k = 0; k < 8; k++) { uint32_t bit = ((b >> k) & 1) ^ (s & 1); s >>= 1; if (bit) s ^= 0x82F63B78u; }
	return s;
}
/* the same LFSR in the "XOR the byte in, then shift eight times" formulation (h_serial_forms proves the two equal);
 * used below because it shares structure with the instruction model, which keeps the per-pair queries trivial */
static uint32_t ref_lfsr_byte(uint32_t s, uint8_t b)
{
	s ^= b;
	for (int k = 0; k < 8; k++) s = (s >> 1) ^ ((s & 1) ? 0x82F63B78u : 0);
	return s;
}
void h_serial_forms(void)
{
	uint32_t s = nd_u32(); uint8_t b = nd_u8();
	CHECK(ref_lfsr_byte(s, b) == ref_lfsr_byte_c01(s, b), "two formulations of the bit-serial LFSR byte step agree");
	REACHED();
}
#ifndef MINLEN
#define MINLEN 8
#endif
/*
 * Alignment and length are enumerated CONCRETELY by the harness loops (8 x (MAXLEN-7) pairs, each with its own
 * exact-size object), state and content are symbolic: control flow is then concrete for symex and every pair is a
 * straight-line equivalence.  With (off, len) symbolic the head/body/tail split defeats every SAT back end (280 s).
 */
void h_sse42(void)
{
	for (size_t off = 0; off < 8; off++) {
		for (size_t len = MINLEN; len <= MAXLEN; len++) {
			uint8_t * raw = malloc(off + len);	/* any access outside [buf, buf+len) is a bounds violation */
			uint32_t s0 = nd_u32();
			for (size_t i = 0; i < off + len; i++) raw[i] = nd_u8();
			uint32_t got = CRC32C_Update_SSE42(s0, raw + off, len);
#ifndef SAFETY_ONLY
			uint32_t s = s0;
			for (size_t i = 0; i < len; i++) s = ref_lfsr_byte(s, raw[off + i]);
			CHECK(got == s, "CRC32C_Update_SSE42 == bit-serial Castagnoli LFSR, head/aligned body/tail split at every alignment");
#else
			(void)got;
#endif
			free(raw);
		}
	}
	REACHED();
}
