def obligations(tier):
    T = tier == "thorough"
    to = 1800 if T else 280
    obs = []
    cases = [(-1, rb) for rb in ((0, 1, 255, 256) + ((2, 128, 254) if T else ()))] + [(k, 255) for k in list(range(0, 22)) + [100]]
    for fa, rb in cases:
      obs.append(dict(name="dh-modexp-%s" % ("ok-resultlen%d" % rb if fa < 0 else "fail-at-call%d" % fa), harness="dh.c", entry="h_modexp", defs=["RB=%d" % rb, "FAILAT=%d" % fa], unwind=300, unwindset=["memcmp.0:40"], backends=["cadical"], timeout=to,
                    claim=("crypto_dh_generate_pub / crypto_dh_compute over the abstract BIGNUM model, " + ("no failure, result of %d bytes" % rb if fa < 0 else ("BN call no. %d fails" % fa if fa < 100 else "the entropy read fails")) +
                           ": result = base^(2^258 + priv) mod the group-14 prime with the SAME base and modulus in both exponentiations, blinded exponent non-negative, independent of the blinding value; 256-byte left-zero-padded output; -1 on failure; every BIGNUM released exactly once, every secret-derived one with BN_clear_free"),
                    bounds="all 256-bit private and blinding values; failure point fixed per obligation (every call site 0..21 and the entropy read are covered by the set of obligations)", stubs=["OpenSSL BN_* -> abstract group model (harness/C10/dh.c)", "crypto_entropy_read -> nondeterministic content"]))
    obs.append(dict(name="dh-sanitycheck", harness="dh.c", entry="h_sanity", unwind=300, unwindset=["memcmp.0:260"], backends=["cadical", "kissat"], timeout=to, replay="model",
                    claim="crypto_dh_sanitycheck accepts exactly the 2048-bit values numerically below p", bounds="all 2^2048 values", stubs=["memcmp: CBMC model"]))
    obs.append(dict(name="dh-generate-wrapper", harness="gen.c", entry="h_generate", replace=["crypto_entropy_read:stub_entropy", "crypto_dh_generate_pub:stub_genpub"], unwind=40, backends=["cadical"], timeout=1800 if tier == "thorough" else 280,
                    claim="crypto_dh_generate: private value = 32 bytes from crypto_entropy_read, public value computed from exactly those bytes; -1 iff either step fails; nothing computed from an unfilled private value", bounds="none", stubs=["crypto_entropy_read, crypto_dh_generate_pub -> recording stubs (own obligations)"]))
    return obs
SELFTESTS = [dict(name="group14-constant", script="refs/selftest_group14.py", what="the modulus bytes in crypto_dh_group14.c equal the RFC 3526 group-14 prime computed from its defining formula")]
TRUSTED = ["CBMC 6.11 C semantics", "cadical", "the abstract BIGNUM model: algebraic axioms only (x^a * x^b = x^(a+b) for a, b >= 0)"]
ASSUMPTIONS = ["OpenSSL's modular arithmetic (assembly, outside /repo) is not encoded: the claim is that crypto_dh.c computes the right expression over a correct BN library", "BN_bn2bin writes the minimal-length big-endian encoding (OpenSSL contract)"]
EXPLANATION = ""
