/*
 * C10 / C20: crypto_dh_generate = 32 bytes from the random generator as the private value, then the public value
 * computed from exactly those bytes; either step failing => -1.  Both callees are rebound to recording stubs (their
 * bodies are the other C10 / C11 obligations).
 */
#include <stdint.h>
#include <stdlib.h>
#include "vh.h"
#include "stub_warnp.c"
int stub_entropy(uint8_t *, size_t); int stub_genpub(uint8_t *, const uint8_t *);
#include "crypto_dh.c"
static int e_calls, e_fail, g_calls, g_fail, order_bad; static uint8_t * e_buf, * g_pub; static const uint8_t * g_priv; static size_t e_len; static uint8_t ENT[CRYPTO_DH_PRIVLEN];
int stub_entropy(uint8_t * b, size_t n) { e_calls++; e_buf = b; e_len = n; if (g_calls) order_bad = 1; if (e_fail) return -1; for (size_t i = 0; i < CRYPTO_DH_PRIVLEN; i++) if (i < n) b[i] = ENT[i]; return 0; }
int stub_genpub(uint8_t * pub, const uint8_t * priv) { g_calls++; g_pub = pub; g_priv = priv; if (!e_calls) order_bad = 1; return g_fail ? -1 : 0; }
void h_generate(void)
{
	uint8_t * pub = malloc(CRYPTO_DH_PUBLEN), * priv = malloc(CRYPTO_DH_PRIVLEN); ASSUME(pub != NULL && priv != NULL);
	for (size_t i = 0; i < CRYPTO_DH_PRIVLEN; i++) ENT[i] = nd_u8();
	e_fail = nd_bool(); g_fail = nd_bool();
	int rc = crypto_dh_generate(pub, priv);
	CHECK(e_calls == 1 && e_buf == priv && e_len == CRYPTO_DH_PRIVLEN && CRYPTO_DH_PRIVLEN == 32, "the private value is 32 bytes from the random generator, written to priv");
	CHECK((rc == 0) == (!e_fail && !g_fail) && (rc == 0 || rc == -1), "-1 iff the generator or the exponentiation fails");
	if (e_fail) CHECK(g_calls == 0, "no public value is computed from an unfilled private value");
	else { CHECK(g_calls == 1 && g_pub == pub && g_priv == priv && !order_bad, "public value computed from exactly those bytes"); size_t k = nd_size(); ASSUME(k < CRYPTO_DH_PRIVLEN); CHECK(priv[k] == ENT[k], "private value = generator output"); }
	REACHED();
}
