/*
 * C10 (+ the Diffie-Hellman part of C20): crypto/crypto_dh.c over an ABSTRACT model of OpenSSL's BIGNUM API.
 * OpenSSL's modular arithmetic is machine code outside /repo and is NOT encoded; the claim is "crypto_dh.c computes
 * the right expression over a correct BN library".  A BIGNUM is either an integer < 2^320 (5 limbs: enough for
 * 2^258 + priv), the group-14 modulus, a 2048-bit public value (opaque identity), or an abstract group element
 * base^e mod p with e an integer: BN_mod_exp / BN_mod_mul obey x^a * x^b = x^(a+b) (a, b >= 0) and nothing else.
 * Every constructor/operation may fail nondeterministically.  Each BIGNUM carries a taint bit (derived from the
 * private exponent or the blinding value): releasing a tainted one with anything but BN_clear_free, releasing twice
 * or leaking are assertions.
 */
#include <stdint.h>
#include <stdlib.h>
#include <string.h>
#include <openssl/bn.h>
#include <openssl/err.h>
#include "vh.h"
#include "stub_warnp.c"
typedef struct { uint64_t l[5]; } w5;
enum { K_FREE = 0, K_INT, K_MODULUS, K_PUB, K_ELEM, K_UNSET };
struct bignum_st { int kind; w5 v; int base; /* 0 = the integer 2, 1 = the peer's public value */ int neg; int taint; int live; };
#define NBN 12
static struct bignum_st POOLB[NBN];
static int bn_bad, bn_neg_exp, bn_wrong_mod, bn_mixed_base, plain_free_of_tainted;
static const uint8_t * PRIV_PTR; static uint8_t BLIND[32]; static const uint8_t * PUB_PTR;
#include "crypto_dh_group14.h"
/* failure injection: the FAILAT-th BN call of the run fails (-1: none; 100: the entropy read).  One constant per
 * obligation keeps control flow concrete for symex -- with a nondeterministic choice at each of the ~20 call sites the
 * clean-up code dereferences merged pointers into the BIGNUM pool and the query grows to 40M clauses. */
#ifndef FAILAT
#define FAILAT -1
#endif
static int bn_callno;
static int fails(void) { return (bn_callno++ == FAILAT); }
static w5 w5_add(w5 a, w5 b) { w5 r; unsigned __int128 c = 0; for (int i = 0; i < 5; i++) { c += (unsigned __int128)a.l[i] + b.l[i]; r.l[i] = (uint64_t)c; c >>= 64; } return r; }
static int w5_lt(w5 a, w5 b) { for (int i = 4; i >= 0; i--) { if (a.l[i] < b.l[i]) return 1; if (a.l[i] > b.l[i]) return 0; } return 0; }
static w5 w5_sub(w5 a, w5 b) { w5 r; unsigned __int128 br = 0; for (int i = 0; i < 5; i++) { unsigned __int128 d = (unsigned __int128)a.l[i] - b.l[i] - br; r.l[i] = (uint64_t)d; br = (d >> 64) & 1; } return r; }
static int w5_eq(w5 a, w5 b) { int e = 1; for (int i = 0; i < 5; i++) e &= (a.l[i] == b.l[i]); return e; }
static w5 w5_from_be(const uint8_t * s, int len) { w5 r; memset(&r, 0, sizeof r); for (int i = 0; i < 40; i++) if (i < len) { int pos = len - 1 - i; r.l[i / 8] |= (uint64_t)s[pos] << (8 * (i % 8)); } return r; }
static int nalloc;	/* objects are handed out sequentially: the index stays a constant on every symex path (after a failure nothing more is allocated) */
static BIGNUM * bn_alloc(void) { if (nalloc >= NBN) { bn_bad = 1; return NULL; } BIGNUM * b = &POOLB[nalloc++]; memset(b, 0, sizeof *b); b->live = 1; b->kind = K_UNSET; return b; }
BIGNUM * BN_new(void) { if (fails()) return NULL; return bn_alloc(); }
BIGNUM * BN_bin2bn(const unsigned char * s, int len, BIGNUM * ret)
{
	if (ret != NULL) { bn_bad = 1; return NULL; }
	if (fails()) return NULL;
	BIGNUM * b = bn_alloc(); if (b == NULL) return NULL;
	if (len == 256 && s == crypto_dh_group14) b->kind = K_MODULUS;
	else if (len == 256) { b->kind = K_PUB; if (s != PUB_PTR) bn_bad = 1; }
	else if (len <= 40) { b->kind = K_INT; b->v = w5_from_be(s, len); b->taint = (s == PRIV_PTR) || (len == 32 && memcmp(s, BLIND, 32) == 0 && s != PRIV_PTR); }
	else bn_bad = 1;
	return b;
}
int BN_set_word(BIGNUM * a, BN_ULONG w) { if (fails()) return 0; a->kind = K_INT; memset(&a->v, 0, sizeof a->v); a->v.l[0] = w; return 1; }
int BN_add(BIGNUM * r, const BIGNUM * a, const BIGNUM * b)
{
	if (fails()) return 0;
	if (a->kind != K_INT || b->kind != K_INT || a->neg || b->neg) { bn_bad = 1; return 0; }
	w5 s = w5_add(a->v, b->v); int t = a->taint | b->taint;
	r->kind = K_INT; r->v = s; r->neg = 0; r->taint = t; return 1;
}
int BN_sub(BIGNUM * r, const BIGNUM * a, const BIGNUM * b)
{
	if (fails()) return 0;
	if (a->kind != K_INT || b->kind != K_INT || a->neg || b->neg) { bn_bad = 1; return 0; }
	int ng = w5_lt(a->v, b->v); w5 d = ng ? w5_sub(b->v, a->v) : w5_sub(a->v, b->v); int t = a->taint | b->taint;
	r->kind = K_INT; r->v = d; r->neg = ng; r->taint = t; return 1;
}
static int base_of(const BIGNUM * a) { if (a->kind == K_PUB) return 1; if (a->kind == K_INT && a->v.l[0] == 2 && !a->v.l[1] && !a->v.l[2] && !a->v.l[3] && !a->v.l[4]) return 0; return -1; }
int BN_mod_exp(BIGNUM * r, const BIGNUM * a, const BIGNUM * p, const BIGNUM * m, BN_CTX * ctx)
{
	(void)ctx;
	if (fails()) return 0;
	if (m->kind != K_MODULUS) bn_wrong_mod = 1;
	if (p->kind != K_INT) { bn_bad = 1; return 0; }
	if (p->neg) bn_neg_exp = 1;	/* the group law below only holds for non-negative exponents */
	int b = base_of(a); if (b < 0) { bn_bad = 1; return 0; }
	w5 e = p->v; int t = p->taint;
	r->kind = K_ELEM; r->base = b; r->v = e; r->neg = 0; r->taint = t; return 1;
}
int BN_mod_mul(BIGNUM * r, const BIGNUM * a, const BIGNUM * b, const BIGNUM * m, BN_CTX * ctx)
{
	(void)ctx;
	if (fails()) return 0;
	if (m->kind != K_MODULUS) bn_wrong_mod = 1;
	if (a->kind != K_ELEM || b->kind != K_ELEM) { bn_bad = 1; return 0; }
	if (a->base != b->base) bn_mixed_base = 1;
	w5 e = w5_add(a->v, b->v); int t = a->taint | b->taint, bs = a->base;
	r->kind = K_ELEM; r->base = bs; r->v = e; r->taint = t; return 1;
}
static int RBYTES; static uint8_t RES[256]; static const BIGNUM * exported; static w5 exp_v; static int exp_base, exp_kind;
int BN_num_bits(const BIGNUM * a) { (void)a; return 8 * RBYTES; }	/* a multiple of 8 keeps the byte length a constant for symex; BN_num_bytes rounds up anyway */
int BN_bn2bin(const BIGNUM * a, unsigned char * to) { exported = a; exp_v = a->v; exp_base = a->base; exp_kind = a->kind; for (int i = 0; i < 256; i++) if (i < RBYTES) to[i] = RES[i]; return RBYTES; }
static void release(BIGNUM * a, int clear) { if (a == NULL) return; if (!a->live) { bn_bad = 1; return; } if (a->taint && !clear) plain_free_of_tainted = 1; a->live = 0; a->kind = K_FREE; }
void BN_free(BIGNUM * a) { release(a, 0); }
void BN_clear_free(BIGNUM * a) { release(a, 1); }
static int ctx_live; static char CTXOBJ;
BN_CTX * BN_CTX_new(void) { if (fails()) return NULL; ctx_live++; return (BN_CTX *)&CTXOBJ; }
void BN_CTX_free(BN_CTX * c) { if (c) ctx_live--; }
unsigned long ERR_get_error(void) { return 0; }
char * ERR_error_string(unsigned long e, char * buf) { (void)e; (void)buf; return (char *)"err"; }
static int er_fail;
int crypto_entropy_read(uint8_t * buf, size_t len) { if (er_fail) return -1; for (size_t i = 0; i < 32; i++) if (i < len) buf[i] = BLIND[i]; return 0; }
#include "crypto_dh_group14.c"	/* before crypto_dh.c: the header declares the array with an incomplete type */
#include "crypto_dh.c"

static void run_modexp(int rbytes)
{
	uint8_t priv[32], pub[256], out[256], out0[256];
	for (int i = 0; i < 32; i++) { priv[i] = nd_u8(); BLIND[i] = nd_u8(); }
	for (int i = 0; i < 256; i++) { RES[i] = nd_u8(); out0[i] = out[i] = nd_u8(); }
	RBYTES = rbytes;
	if (RBYTES > 0) ASSUME(RES[0] != 0);	/* BN_bn2bin writes a minimal-length big-endian value */
	er_fail = (FAILAT == 100);
	PRIV_PTR = priv; PUB_PTR = pub;
	int which = nd_bool();
	int rc = which ? crypto_dh_compute(pub, priv, out) : crypto_dh_generate_pub(out, priv);
	CHECK(rc == 0 || rc == -1, "documented return values");
	CHECK(!bn_bad, "BIGNUM API used within its contract (kinds, no reuse after free, pool)");
	for (int i = 0; i < NBN; i++) CHECK(!POOLB[i].live, "every BIGNUM released exactly once on success and on every error exit");
	CHECK(ctx_live == 0, "BN_CTX released");
	CHECK(!plain_free_of_tainted, "every BIGNUM derived from the private exponent or the blinding value is released with BN_clear_free (C20)");
	if (rc == 0) {
		CHECK(!bn_wrong_mod, "both exponentiations and the product are modulo the group-14 prime");
		CHECK(!bn_mixed_base && !bn_neg_exp, "same base in both exponentiations; blinded exponent priv + 2^258 - (r + 2^256) is non-negative");
		CHECK(exported != NULL, "result exported");
		/* exported element = base^(priv + 2^258), whatever the blinding value was */
		w5 want = w5_from_be(priv, 32); w5 t258; memset(&t258, 0, sizeof t258); t258.l[4] = 4;	/* 2^258 = 4 * 2^256 */
		want = w5_add(want, t258);
		CHECK(exp_kind == K_ELEM && exp_base == (which ? 1 : 0), "the result is a power of 2 (public value) / of the peer's value (shared key)");
		CHECK(w5_eq(exp_v, want), "exponent is exactly 2^258 + priv -- independent of the blinding value");
		int lead = 256 - RBYTES;
		size_t i = nd_size(); ASSUME(i < 256);
		CHECK(out[i] == (i < (size_t)lead ? 0 : RES[i - (size_t)lead]), "256-byte big-endian output, left-padded with zeros for every result length 0..256");
	}
	(void)out0;
}
/* the result length is a constant on each symex path (a symbolic one turns the padding memset and the export into 256 x 256 muxes: 40M clauses) */
void h_modexp(void)
{
#ifndef RB
#define RB 255
#endif
	run_modexp(RB);
	REACHED();
}

#ifdef VH_CBMC
/* sanity check: accepts exactly the values numerically below p (2048-bit comparison) */
void h_sanity(void)
{
	uint8_t pub[256];
	for (int i = 0; i < 256; i++) pub[i] = nd_u8();
	unsigned __CPROVER_bitvector[2048] A = 0, M = 0;
	for (int i = 0; i < 256; i++) { A = (A << 8) | pub[i]; M = (M << 8) | crypto_dh_group14[i]; }
	int rc = crypto_dh_sanitycheck(pub);
	CHECK(rc == 0 || rc == -1, "documented return values");
	CHECK((rc == 0) == (A < M), "accepted exactly when the value is numerically below p");
	REACHED();
}
#endif
