def heap_obligations(tier, mmf, prefix):
    T = tier == "thorough"
    nm_ = 15 if T else 6
    obs = []
    for ent, nm, what in (("h_add", "timerqueue-add", "add: heap order, every handle identifies its element, stored pointer/time, getmin least; (ptrheap_add sift-up with notification on every swap)"),
                          ("h_delete", "timerqueue-delete-by-handle", "delete(handle) of ANY element: intended element and no other removed, heap order, all other handles still valid (interior deletion: move last into the hole, sift up or down)"),
                          ("h_increase", "timerqueue-increase", "increase(handle, later time): heap order and handles preserved"),
                          ("h_decrease_increasemin", "ptrheap-decrease-increasemin", "ptrheap_decrease(handle) / ptrheap_increasemin after a key change in the permitted direction"),
                          ("h_getptr", "timerqueue-getptr", "getptr(t): releases the stored pointer of a least entry iff its time <= t, nothing later than t, remaining heap valid"),
                          ("h_create", "ptrheap-create", "ptrheap_create from an arbitrary array: heap order, one position notification per element")):
      # sizes: every count up to nm_, plus 9, 12, 13 (4-level trees: e.g. interior deletion needs >= 12 elements to sift up two levels from depth 3)
      sizes = [(0, 3)] + [(k, k) for k in range(4, nm_ + 1)] + ([] if (mmf or T) else [(9, 9), (12, 12), (13, 13)])
      for lo, hi in sizes:
        if ent == "h_create" and lo > 6: continue
        obs.append(dict(name=prefix + nm + "-n%d-%d" % (lo, hi), harness="../C13/heap.c", entry=ent, defs=["NLO=%d" % lo, "NMAX=%d" % hi] + (["MMF"] if mmf else []), unwind=max(nm_, hi) + 6, mmf=mmf,
                        unwindset=["heapify#0:6", "heapifyup#0:6", "timerqueue_free#0:%d" % (nm_ + 3)],
                        flags=["--object-bits", "12"] + (["--memory-leak-check"] if mmf else []), backends=["cadical"], timeout=1800 if T else 280,
                        claim=what + (" [every allocation may fail independently: NULL/-1 reported, queue unchanged, no leak]" if mmf else ""),
                        bounds="element counts %d..%d (this obligation; together 0..%d), times in a 6x3 domain spanning the whole time_t range (ties frequent, differences beyond 2^31 present), handles/new times symbolic" % (lo, hi, nm_),
                        stubs=["malloc/realloc/free: CBMC models" + (" with --malloc-may-fail --malloc-fail-null" if mmf else "")]))
    return obs

def obligations(tier):
    obs = heap_obligations(tier, False, "")
    for nl in (0, 2, 3):
        obs.append(dict(name="timerqueue-init-free-n%d" % nl, harness="heap.c", entry="h_lifecycle", defs=["NLIFE=%d" % nl, "NLO=0", "NMAX=3"], unwind=12, unwindset=["heapify#0:6", "heapifyup#0:6", "timerqueue_free#0:6"],
                        flags=["--object-bits", "12", "--memory-leak-check"], backends=["cadical"], timeout=1800 if tier == "thorough" else 280,
                        claim="timerqueue_init gives an empty queue (no minimum, nothing due); timerqueue_free releases the %d remaining entries, the heap and the queue (leak check); timerqueue_free(NULL) is a no-op" % nl, bounds="%d entries" % nl, stubs=["malloc/free: CBMC models"]))
    return obs

TRUSTED = ["CBMC 6.11 C semantics and heap model", "cadical"]
ASSUMPTIONS = ["sizes from empty to 13 entries (quick: 0..6, 9, 12, 13; thorough: 0..15); 'thousands of entries' is outside the bound (the sift loops are the same code at every depth)"]
EXPLANATION = ""
