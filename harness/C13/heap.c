/*
 * C13 (C14 with allocation failure on): pointer heap + timer queue, inductive steps from an ARBITRARY valid heap:
 * any keys satisfying heap order, handles consistent (record->rc == its position).  The element count N is
 * enumerated concretely by the harness loop (0..NMAX: all tree shapes up to 3-4 levels); keys (seconds and
 * microseconds, duplicates allowed), pointers, handles chosen, and new values are symbolic.
 */
#include <stdint.h>
#include <stdlib.h>
#include <string.h>
#include "vh.h"
#include "elasticarray.c"
#include "ptrheap.c"
#include "timerqueue.c"
#ifndef NMAX
#define NMAX 7
#endif
#ifndef NLO
#define NLO 0
#endif
static struct timerrec * R[NMAX + 2];
static struct timerqueue * Q;
static size_t pick(size_t n) { size_t v = nd_size(); return n ? v % n : 0; }
/* times: seconds from a 6-value set spanning the whole time_t range (0, 1, 2, 2^31+5, 2^33, 2^62) x 3 microsecond values: ties frequent,
 * and differences that do not fit an int are present */
static struct timeval ndtv(void)
{
	static const int64_t SEC[6] = {0, 1, 2, 2147483653LL, 8589934592LL, 4611686018427387904LL};
	struct timeval t; t.tv_sec = (time_t)SEC[nd_u64() % 6]; t.tv_usec = (suseconds_t)(nd_u64() % 3); return t;
}
static struct timerrec ** slot(size_t i) { return (struct timerrec **)ptrlist_get(Q->H->elems, i); }
/* build a heap of n records; returns 0 if the drawn keys violate heap order (caller skips: same effect as an assumption) */
static int mk(size_t n)
{
	/* built field by field (the harness TU includes the .c files): the library's own constructors would make the
	 * pre-state depend on allocation outcomes when allocation failure is enabled */
	struct elasticarray * EA = malloc(sizeof(*EA));
	struct ptrheap * H = malloc(sizeof(*H));
	Q = malloc(sizeof(*Q));
	ASSUME(EA != NULL && H != NULL && Q != NULL);
	EA->size = EA->alloc = n * sizeof(void *);
	if (n == 0) EA->buf = NULL; else { EA->buf = malloc(n * sizeof(void *)); ASSUME(EA->buf != NULL); }
	H->compar = compar; H->setreccookie = setreccookie; H->cookie = Q; H->elems = (PTRLIST)EA; H->nelems = n;
	Q->H = H;
	int ok = 1;
	for (size_t i = 0; i < n; i++) {
		R[i] = malloc(sizeof(struct timerrec));
		ASSUME(R[i] != NULL);
		R[i]->tv = ndtv(); R[i]->rc = i; R[i]->ptr = (void *)(uintptr_t)(0x1000 + i);
		*slot(i) = R[i];
		if (i > 0 && tvcmp(&R[(i - 1) / 2]->tv, &R[i]->tv) > 0) ok = 0;
	}
	return ok;
}
/* heap order + handle consistency over the current n elements; every record in live[] present exactly where its handle says */
static void good(size_t n, struct timerrec ** live, size_t nlive_all, struct timerrec * skip)
{
	size_t nlive = nlive_all - (skip != NULL);
	CHECK(Q->H->nelems == n && ptrlist_getsize(Q->H->elems) == n, "element count");
	for (size_t i = 1; i < NMAX + 1; i++) if (i < n) CHECK(tvcmp(&(*slot((i - 1) / 2))->tv, &(*slot(i))->tv) <= 0, "heap order: parent <= child");
	for (size_t k = 0; k < NMAX + 1; k++) if (k < nlive_all && live[k] != skip) { CHECK(live[k]->rc < n, "handle in range"); if (live[k]->rc < n) CHECK(*slot(live[k]->rc) == live[k], "handle identifies exactly its element"); }
	CHECK(nlive == n, "multiset size");
}
/* release everything by hand (concrete counts): timerqueue_free() on a heap whose size became symbolic after a
 * success/failure merge costs CBMC > 28 GB; `gone` is a record the operation already freed, `extra` one it added */
static void drop2(size_t n, struct timerrec * gone, struct timerrec * extra)
{
	for (size_t i = 0; i < NMAX + 1; i++) if (i < n && R[i] != gone) free(R[i]);
	if (extra != NULL) free(extra);
	struct elasticarray * EA = (struct elasticarray *)Q->H->elems;
	free(EA->buf); free(EA); free(Q->H); free(Q);
}
static void drop(size_t n) { drop2(n, NULL, NULL); }

void h_add(void)
{
	for (size_t n = NLO; n <= NMAX; n++) {
		if (!mk(n)) continue;
		struct timeval t = ndtv(); void * p = (void *)(uintptr_t)0x2000;
		struct timerrec * r = timerqueue_add(Q, &t, p);
#ifndef MMF
		CHECK(r != NULL, "add succeeds when memory is available");
#endif
		if (r != NULL) { R[n] = r; CHECK(r->ptr == p && tvcmp(&r->tv, &t) == 0, "stored pointer and time"); good(n + 1, R, n + 1, NULL); }
		else good(n, R, n, NULL);	/* C14: failed add leaves the queue exactly as it was */
		const struct timeval * m = timerqueue_getmin(Q);
		for (size_t k = 0; k < NMAX + 1; k++) if (k < n + (r != NULL)) CHECK(tvcmp(m, &R[k]->tv) <= 0, "getmin is a least element");
		drop2(n, NULL, r);
	}
	REACHED();
}
void h_delete(void)
{
	for (size_t n = (NLO ? NLO : 1); n <= NMAX; n++) {
		if (!mk(n)) continue;
		size_t k = pick(n);
		struct timerrec * victim = R[k];
		timerqueue_delete(Q, victim);	/* by handle: the interior-deletion path (move last into the hole, sift up or down) */
		good(n - 1, R, n, victim);
		drop2(n, victim, NULL);
	}
	REACHED();
}
void h_increase(void)
{
	for (size_t n = (NLO ? NLO : 1); n <= NMAX; n++) {
		if (!mk(n)) continue;
		size_t k = pick(n);
		struct timeval t = ndtv();
		if (tvcmp(&t, &R[k]->tv) < 0) { drop(n); continue; }	/* increase only */
		timerqueue_increase(Q, R[k], &t);
		CHECK(tvcmp(&R[k]->tv, &t) == 0, "new time recorded");
		good(n, R, n, NULL);
		drop(n);
	}
	REACHED();
}
void h_decrease_increasemin(void)
{
	for (size_t n = (NLO ? NLO : 1); n <= NMAX; n++) {
		if (!mk(n)) continue;
		struct timeval t = ndtv();
		if (nd_bool()) {
			size_t k = pick(n);
			if (tvcmp(&t, &R[k]->tv) > 0) { drop(n); continue; }
			R[k]->tv = t;
			ptrheap_decrease(Q->H, R[k]->rc);
		} else {
			struct timerrec * m = ptrheap_getmin(Q->H);
			if (tvcmp(&t, &m->tv) < 0) { drop(n); continue; }
			m->tv = t;
			ptrheap_increasemin(Q->H);
		}
		good(n, R, n, NULL);
		drop(n);
	}
	REACHED();
}
void h_getptr(void)
{
	for (size_t n = NLO; n <= NMAX; n++) {
		if (!mk(n)) continue;
		struct timeval q = ndtv(), K[NMAX + 1];
		int anydue = 0;
		for (size_t i = 0; i < n; i++) { K[i] = R[i]->tv; if (tvcmp(&K[i], &q) <= 0) anydue = 1; }	/* keys saved: records may be freed below */
		struct timerrec * m = ptrheap_getmin(Q->H);
		struct timeval mt; void * mp = NULL; if (m) { mt = m->tv; mp = m->ptr; }
		void * p = timerqueue_getptr(Q, &q);
		CHECK((p != NULL) == anydue, "an entry is released iff some entry's time is <= the query time");
		if (p != NULL) {
			CHECK(p == mp, "exactly the pointer stored with the released entry");
			CHECK(tvcmp(&mt, &q) <= 0, "nothing later than the query time is released");
			for (size_t i = 0; i < n; i++) CHECK(tvcmp(&mt, &K[i]) <= 0, "released entry had a least time (non-decreasing release order)");
			good(n - 1, R, n, m);
		} else good(n, R, n, NULL);
		/* no clean-up here: after the release/no-release branches merge the heap size is symbolic, and freeing it
		 * (symbolic-size realloc in elasticarray_shrink) sends CBMC past 28 GB; getptr allocates nothing, so leaks are not at stake */
	}
	REACHED();
}
void h_create(void)
{
	for (size_t n = NLO; n <= NMAX && n <= 6; n++) {
		struct timerrec rec[6]; void * ptrs[6];
		for (size_t i = 0; i < n; i++) { rec[i].tv = ndtv(); rec[i].rc = 99; rec[i].ptr = NULL; ptrs[i] = &rec[i]; }
		struct ptrheap * H = ptrheap_create(compar, setreccookie, NULL, n, ptrs);
#ifndef MMF
		CHECK(H != NULL, "create succeeds when memory is available");
#endif
		if (H == NULL) continue;
		CHECK(H->nelems == n, "element count");
		for (size_t i = 1; i < 6; i++) if (i < n) CHECK(tvcmp(&(*(struct timerrec **)ptrlist_get(H->elems, (i - 1) / 2))->tv, &(*(struct timerrec **)ptrlist_get(H->elems, i))->tv) <= 0, "heap order after bottom-up construction");
		for (size_t i = 0; i < 6; i++) if (i < n) CHECK(rec[i].rc < n && *(struct timerrec **)ptrlist_get(H->elems, rec[i].rc) == &rec[i], "one notification per element with its final position");
		ptrheap_free(H);
	}
	REACHED();
}

/* init -> a few adds -> free: an empty queue has no minimum; timerqueue_free releases every remaining entry, the heap and the
 * queue itself (--memory-leak-check); timerqueue_free(NULL) is a no-op */
#ifndef NLIFE
#define NLIFE 2
#endif
void h_lifecycle(void)
{
	struct timerqueue * q = timerqueue_init();
	ASSUME(q != NULL);
	CHECK(timerqueue_getmin(q) == NULL, "a fresh queue is empty");
	struct timeval t0 = ndtv(); CHECK(timerqueue_getptr(q, &t0) == NULL, "nothing is ever due in an empty queue");
	for (int i = 0; i < NLIFE; i++) { struct timeval t = ndtv(); void * r = timerqueue_add(q, &t, (void *)(uintptr_t)(0x3000 + i)); ASSUME(r != NULL); }
	if (NLIFE > 0) CHECK(timerqueue_getmin(q) != NULL, "entries are there");
	timerqueue_free(NULL);
	timerqueue_free(q);
	REACHED();
}
