import importlib.util, os
def _load(pid):
    p = os.path.join(os.path.dirname(os.path.dirname(os.path.abspath(__file__))), pid, "spec.py")
    sp = importlib.util.spec_from_file_location("spec_" + pid + "_for_c14", p)
    m = importlib.util.module_from_spec(sp); sp.loader.exec_module(m); return m

def obligations(tier):
    """The container step harnesses of C12/C13 re-run with --malloc-may-fail --malloc-fail-null: EVERY allocation site
    fails independently and nondeterministically (contains 'the k-th fails' and 'all from k on fail' for every k),
    plus --memory-leak-check after releasing the objects with their normal free calls."""
    c12, c13 = _load("C12"), _load("C13")
    # elastic queue / seqptrmap add and delete under failing allocators did not fit (after a failed realloc the paths
    # merge with symbolic sizes; CBMC exceeded 28 GB even for 2 records): only their init obligations are kept
    obs = c12.ea_obligations(tier, True, "allocfail-") + [o for o in c12.eq_obligations(tier, True, "allocfail-") if o["name"].endswith("-init")] + c12.mp_obligations(tier, True, "allocfail-")
    # heap/timer queue under allocation failure: small shapes only (n <= 3) -- after a failed/successful allocation the
    # paths merge with a symbolic element count and the clean-up needed for the leak check blows CBMC past 28 GB for n >= 4
    # heap/timer queue under allocation failure: only ptrheap_create is decided; the add/delete steps with failing
    # allocators did not fit (symbolic element count after the success/failure merge: > 28 GB) -- stated in DESIGN.md
    obs += [o for o in c13.heap_obligations(tier, True, "allocfail-") if o["name"].endswith("-n0-3") and "ptrheap-create" in o["name"]]
    obs.append(dict(name="allocfail-asprintf", harness="asp.c", entry="h_asprintf", unwind=12, mmf=True, flags=["--memory-leak-check"], backends=["cadical"], timeout=1800 if tier == "thorough" else 280,
                    claim="util/asprintf.c: measure, allocate exactly len+1, format; formatting or allocation failure => -1 and nothing leaked", bounds="formatted length 0..7", stubs=["vsnprintf -> scripted"]))
    # buffered writer (netbuf_write.c): append steps with a failing allocator
    to = 1800 if tier == "thorough" else 280
    for ent, nm, defs in (("h_allocfail_write", "write-len1", ["WL=1"]), ("h_allocfail_write", "write-len4097", ["WL=4097"]), ("h_allocfail_reserve", "reserve5-consume3", ["WL=5", "CL=3"])):
        obs.append(dict(name="allocfail-netbuf-writer-" + nm, harness="../C07/wr.c", entry=ent, defs=defs + ["LASTBIG=0"], unwind=6, mmf=True, flags=["--memory-leak-check", "--arrays-uf-always"], backends=["cadical"], timeout=to,
                        claim="netbuf_write_%s with every allocation inside it failing independently, from every writer state (0/1 in flight x 0..2 queued): failure is reported (-1 / NULL), the pending stream and the in-flight request are untouched, nothing is sent; after netbuf_write_free nothing is leaked on either outcome" % ("write" if "write" in nm else "reserve/consume"),
                        bounds="same queue shapes as C07", stubs=["network_write -> recording model that never refuses", "memcpy -> single-observation copy"]))
    obs.append(dict(name="allocfail-events-timer", harness="../C05/tim.c", entry="h_timer", defs=["MMF"], unwind=8, mmf=True, flags=["--memory-leak-check"], backends=["cadical"], timeout=to,
                    claim="events_timer_register / events_timer_min with their allocations failing independently: NULL / -1, the event record released, nothing registered in the queue, nothing leaked; the other timer operations allocate nothing and succeed", bounds="as C05 timer-source-steps", stubs=["timerqueue_* -> recording abstract queue", "monoclock_get -> arbitrary"]))
    obs.append(dict(name="allocfail-network-connect", harness="../C06/conn.c", entry="h_connect", defs=["MMF", "NADDR=2"], unwind=6, mmf=True, flags=["--memory-leak-check"], backends=["cadical"], timeout=to,
                    claim="network_connect with its cookie allocation failing: NULL, no callback ever, no descriptor opened, nothing registered, nothing leaked; otherwise the whole-attempt obligations of C06 hold unchanged", bounds="2 addresses", stubs=["as C06 network-connect"]))
    for nl in (16, 28):	# namelen 0 excluded: malloc(0) may be NULL and memcpy/memcmp(NULL, ., 0) trips CBMC's precondition although nothing is accessed
        obs.append(dict(name="allocfail-sockaddr-namelen%d" % nl, harness="../C15/sockaddr.c", entry="h_roundtrip", defs=["MMF", "NAMELEN=%d" % nl], vsrcs=["models/stub_warnp.c"], unwind=max(nl + 2, 8), mmf=True, flags=["--memory-leak-check"], backends=["cadical"], timeout=to,
                        claim="sock_addr_serialize / sock_addr_deserialize / sock_addr_dup with every allocation failing independently: -1 / NULL and nothing leaked (a half-built address is released); successful calls still round-trip", bounds="namelen %d" % nl, stubs=["warn -> empty"]))
    for wl in (9, 17):
        obs.append(dict(name="allocfail-netbuf-reader-wait-k%d" % wl, harness="../C07/rd.c", entry="h_wait", defs=["MAXLEN=20", "WLEN=%d" % wl], unwind=12, mmf=True, flags=["--memory-leak-check"], backends=["cadical"], timeout=to,
                        claim="netbuf_read_wait(k=%d) when the buffer must grow and the allocation fails: -1, nothing pending, the buffered bytes and the window untouched, the reader still usable (cancel, free), nothing leaked" % wl,
                        bounds="buffer sizes 1, 4, 8", stubs=["network_read / events_immediate -> recording models"]))
    # events_network_register under a failing allocator (../C04/net.c with -DMMF): CBMC ran out of memory (28 GB) -- after a failed/successful realloc the
    # socket list has a symbolic size; not registered
    extra = globals().get("more_obligations")
    if extra: obs += extra(tier)
    return obs

TRUSTED = ["CBMC 6.11 heap model with --malloc-may-fail --malloc-fail-null (malloc/realloc/calloc may return NULL at every call; a failed realloc leaves the old block intact)", "cadical"]
ASSUMPTIONS = ["harness-internal allocations that build the arbitrary pre-state are assumed to succeed (only library allocations are under test)"]
EXPLANATION = ""
