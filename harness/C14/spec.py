import importlib.util, os
def _load(pid):
    p = os.path.join(os.path.dirname(os.path.dirname(os.path.abspath(__file__))), pid, "spec.py")
    sp = importlib.util.spec_from_file_location("spec_" + pid + "_for_c14", p)
    m = importlib.util.module_from_spec(sp); sp.loader.exec_module(m); return m

def obligations(tier):
    """The container step harnesses of C12/C13 re-run with --malloc-may-fail --malloc-fail-null: EVERY allocation site
    fails independently and nondeterministically (contains 'the k-th fails' and 'all from k on fail' for every k),
    plus --memory-leak-check after releasing the objects with their normal free calls."""
    c12, c13 = _load("C12"), _load("C13")
    # elastic queue / seqptrmap add and delete under failing allocators did not fit (after a failed realloc the paths
    # merge with symbolic sizes; CBMC exceeded 28 GB even for 2 records): only their init obligations are kept
    obs = c12.ea_obligations(tier, True, "allocfail-") + [o for o in c12.eq_obligations(tier, True, "allocfail-") if o["name"].endswith("-init")] + c12.mp_obligations(tier, True, "allocfail-")
    # heap/timer queue under allocation failure: small shapes only (n <= 3) -- after a failed/successful allocation the
    # paths merge with a symbolic element count and the clean-up needed for the leak check blows CBMC past 28 GB for n >= 4
    # heap/timer queue under allocation failure: only ptrheap_create is decided; the add/delete steps with failing
    # allocators did not fit (symbolic element count after the success/failure merge: > 28 GB) -- stated in DESIGN.md
    obs += [o for o in c13.heap_obligations(tier, True, "allocfail-") if o["name"].endswith("-n0-3") and "ptrheap-create" in o["name"]]
    obs.append(dict(name="allocfail-asprintf", harness="asp.c", entry="h_asprintf", unwind=12, mmf=True, flags=["--memory-leak-check"], backends=["cadical"], timeout=1800 if tier == "thorough" else 280,
                    claim="util/asprintf.c: measure, allocate exactly len+1, format; formatting or allocation failure => -1 and nothing leaked", bounds="formatted length 0..7", stubs=["vsnprintf -> scripted"]))
    extra = globals().get("more_obligations")
    if extra: obs += extra(tier)
    return obs

TRUSTED = ["CBMC 6.11 heap model with --malloc-may-fail --malloc-fail-null (malloc/realloc/calloc may return NULL at every call; a failed realloc leaves the old block intact)", "cadical"]
ASSUMPTIONS = ["harness-internal allocations that build the arbitrary pre-state are assumed to succeed (only library allocations are under test)"]
EXPLANATION = ""
