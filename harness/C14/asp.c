/* C14/C19: util/asprintf.c -- two-pass vsnprintf with an exact-size allocation; every allocation may fail (MMF) */
#include <stdarg.h>
#include <stdint.h>
#include <stdio.h>
#include <stdlib.h>
#include "vh.h"
static int vs_calls, vs_len1, vs_len2; static size_t vs_size2; static char * vs_buf2;
int vh_vsnprintf(char * s, size_t n, const char * f, va_list ap)
{
	(void)f; (void)ap;
	vs_calls++;
	if (vs_calls == 1) { CHECK(s == NULL && n == 0, "first pass only measures"); return vs_len1; }
	vs_buf2 = s; vs_size2 = n;
	for (size_t i = 0; i < 8; i++) if (i < n) s[i] = (i + 1 < n) ? 'x' : 0;	/* writes at most n bytes */
	return vs_len2;
}
#define vsnprintf vh_vsnprintf
#include "asprintf.c"
void h_asprintf(void)
{
	char * r = (char *)&vs_calls;
	vs_len1 = nd_int_in(-1, 7); vs_len2 = nd_bool() ? vs_len1 : -1;
	int rc = asprintf(&r, "%s", "abc");
	if (vs_len1 < 0) CHECK(rc == -1 && vs_calls == 1, "formatting failure reported, nothing allocated");
	else if (rc == -1) { CHECK(vs_calls == 1 || vs_len2 < 0, "otherwise only an allocation failure or a second-pass failure yields -1"); }
	else {
		CHECK(rc == vs_len2 && vs_calls == 2, "length of the formatted string returned");
		CHECK(vs_buf2 == r && vs_size2 == (size_t)vs_len1 + 1 && VH_EXACT_OBJECT(r, (size_t)vs_len1 + 1), "buffer of exactly len + 1 bytes, second pass bounded by it");
		free(r);
	}
	REACHED();
}
