def obligations(tier):
    T = tier == "thorough"
    to = 2400 if T else 280
    obs = []
    ml = 6 if T else 5
    for lo, hi in [(0, 4)] + [(k, k) for k in range(5, ml + 1)]:
        obs.append(dict(name="humansize-parse-len%d-%d" % (lo, hi), harness="hsize.c", entry="h_parse", defs=["MINL=%d" % lo, "MAXL=%d" % hi], unwind=hi + 4, flags=["--object-bits", "10"],
                        backends=["cadical"], timeout=to,
                        claim="humansize_parse on every NUL-terminated string of length %d..%d (all byte values, exact-size object): accepts exactly digits[ ][kMGTPE][B], value = digits x 1000^k, overflow past 2^64-1 rejected; reads only the string" % (lo, hi),
                        bounds="string length %d..%d" % (lo, hi), stubs=["warnp"]))
    for ln in (19, 20, 21):
        obs.append(dict(name="humansize-parse-long-numerals-len%d" % ln, harness="hsize.c", entry="h_parse", defs=["MINL=%d" % ln, "MAXL=%d" % ln, "DIGITS_ONLY"], unwind=26, backends=["cadical", "kissat"], timeout=to,
                        claim="humansize_parse on every %d-character digit string (optionally ending in k or B): the UINT64_MAX/10 pre-multiplication and last-digit pre-addition overflow edges, against the 128-bit reference" % ln, bounds="length %d, digits only" % ln, stubs=[]))
    # formatting: split on the magnitude so that the division loop count is fixed per case
    cuts = [0, 999, 99999, 9999999, 9999999999, 9999999999999, 9999999999999999, 9999999999999999999, 18446744073709551615]
    for i in range(len(cuts) - 1):
        lo = 0 if i == 0 else cuts[i] + 1
        hi = cuts[i + 1]
        obs.append(dict(name="humansize-format-%d" % i, harness="hsize.c", entry="h_format", defs=["SLO=%dULL" % lo, "SHI=%dULL" % hi], unwind=13, flags=["--no-standard-checks"],
                        backends=["cadical", "kissat", "cvc5int"] if T else ["cadical", "kissat"], timeout=to,
                        claim="humansize(size) for every size in [%d, %d]: output is one of the three documented forms, does not exceed size, and the next representable value does (128-bit arithmetic)" % (lo, hi),
                        bounds="all sizes in the interval (the intervals of the 8 obligations cover all 2^64 sizes)", stubs=["asprintf -> argument-capturing stub"]))
    pl = 5 if T else 3
    for ent, ty in (("h_i8", "int8_t"), ("h_i16", "int16_t"), ("h_i32", "int32_t"), ("h_imax", "intmax_t/int64_t"), ("h_u8", "uint8_t"), ("h_u16", "uint16_t"), ("h_u32", "uint32_t"),
                    ("h_size", "size_t"), ("h_umax", "uintmax_t/uint64_t"), ("h_u8_2", "uint8_t (2-argument PARSENUM)"), ("h_u32_2", "uint32_t (2-argument PARSENUM)"), ("h_size_2", "size_t (2-argument PARSENUM)"), ("h_float", "double (wrapper logic)")):
        for lo, hi in [(0, pl - 1), (pl, pl)]:
            obs.append(dict(name="parsenum-%s-len%d-%d" % (ent[2:], lo, hi), harness="pnum.c", entry=ent, defs=["MINL=%d" % lo, "MAXL=%d" % hi], unwind=hi + 4, flags=["--object-bits", "10"],
                            backends=["cadical"], timeout=to,
                            claim="PARSENUM_EX into %s: for every string of length %d..%d (all byte values, exact-size object), symbolic (min, max), base in {0,2,8,10,16,36}, trailing on/off: success iff well-formed numeral with mathematical value inside bounds and type, stored value exact; else EINVAL / ERANGE as specified" % (ty, lo, hi),
                            bounds="string length %d..%d; strto*max per models/libc_strto.c" % (lo, hi), stubs=["strtoimax/strtoumax -> C11 7.22.1.4 models (validated against glibc every run)", "strtod -> contract stub"]))
    return obs
SELFTESTS = [dict(name="strto-models-vs-glibc", srcs=["/verif/models/selftest_strto.c"], cflags=["-I/verif/models"], what="vh_strtoumax/vh_strtoimax equal glibc's on 3,000,000 generated strings (value, end pointer, ERANGE)")]
TRUSTED = ["CBMC 6.11 C semantics", "cadical/kissat (cvc5 with --solve-bv-as-int in the thorough tier)"]
ASSUMPTIONS = []
EXPLANATION = ""
