/*
 * C16 (+C15): PARSENUM / PARSENUM_EX for every integer target type against a mathematical reference (128-bit),
 * over models of strtoimax/strtoumax (models/libc_strto.c, validated against glibc on every run).
 * Strings: every NUL-terminated string of length 0..MAXL over all byte values in an exact-size object.
 * Float/double: wrapper logic only, strtod is a contract stub (rounding exactness is outside the claim).
 */
#include <errno.h>
#include <inttypes.h>
#include <math.h>
#include <stdint.h>
#include <stdlib.h>
#include <string.h>
#include "vh.h"
#include "libc_strto.c"
static const char * sd_s; static size_t sd_len;
double vh_strtod(const char * s, char ** end)
{
	/* contract: converts some prefix (possibly empty) of the string, returns some double */
	size_t k = nd_size(); k = k % (sd_len + 1);
	union { uint64_t u; double d; } v; v.u = nd_u64();
	*end = (char *)s + k;
	(void)sd_s;
	return v.d;
}
#include <ctype.h>
#undef isspace	/* glibc's isspace is a table lookup through __ctype_b_loc(), which has no body here: C locale model */
#define isspace(c) vhs_space((unsigned char)(c))
#define strtoumax vh_strtoumax
#define strtoimax vh_strtoimax
#define strtod vh_strtod
#include "parsenum.h"
#ifndef MAXL
#define MAXL 4
#endif
#ifndef MINL
#define MINL 0
#endif
typedef __int128 i128;
typedef unsigned __int128 u128;
/* ---- reference: optional white space, one numeral of the base, nothing else unless trailing ---- */
enum { R_MALFORMED, R_OK };
static int ref_dv(uint8_t c) { return (c >= '0' && c <= '9') ? c - '0' : (c >= 'a' && c <= 'z') ? c - 'a' + 10 : (c >= 'A' && c <= 'Z') ? c - 'A' + 10 : 1000; }
static int ref_num(const uint8_t * s, size_t n, int base, int trailing, i128 * val)
{
	size_t i = 0; int neg = 0; u128 mag = 0; size_t nd = 0;
	const u128 SAT = ((u128)1 << 70);
	while (i < n && (s[i] == ' ' || s[i] == '\t' || s[i] == '\n' || s[i] == '\v' || s[i] == '\f' || s[i] == '\r')) i++;
	if (i < n && (s[i] == '+' || s[i] == '-')) { neg = (s[i] == '-'); i++; }
	int b = base;
	if ((b == 0 || b == 16) && i + 2 < n + 0 && s[i] == '0' && (s[i + 1] == 'x' || s[i + 1] == 'X') && ref_dv(s[i + 2]) < 16) { i += 2; b = 16; }
	if (b == 0) b = (i < n && s[i] == '0') ? 8 : 10;
	while (i < n && ref_dv(s[i]) < b) { mag = mag * (u128)b + (u128)ref_dv(s[i]); if (mag > SAT) mag = SAT; i++; nd++; }
	if (nd == 0) return R_MALFORMED;
	if (!trailing && i != n) return R_MALFORMED;
	*val = neg ? -(i128)mag : (i128)mag;
	return R_OK;
}
#define BASES(F) switch (nd_int_in(0, 5)) { case 0: F(0); break; case 1: F(2); break; case 2: F(8); break; case 3: F(10); break; case 4: F(16); break; default: F(36); break; }
static uint8_t * S; static size_t N; static int TR;
#define FOR_STRINGS(...) \
	for (size_t n_ = MINL; n_ <= MAXL; n_++) { \
		S = malloc(n_ + 1); N = n_; \
		if (S == NULL) continue; \
		int nonul = 1; \
		for (size_t i = 0; i < n_; i++) { S[i] = nd_u8(); if (S[i] == 0) nonul = 0; } \
		S[n_] = 0; TR = nd_bool(); sd_s = (const char *)S; sd_len = n_; \
		if (nonul) { __VA_ARGS__; } \
		free(S); \
	}
static void verdict(int rc, int st, i128 v, i128 lo, i128 hi, i128 got)
{
	if (st == R_MALFORMED) CHECK(rc != 0 && errno == EINVAL, "malformed string => failure with EINVAL");
	else if (v < lo || v > hi) CHECK(rc != 0 && errno == ERANGE, "value outside the bounds or the type => failure with ERANGE (never wraparound)");
	else { CHECK(rc == 0, "well-formed numeral within bounds and type => success"); CHECK(got == v, "stored value is exactly the mathematical value"); }
}
static i128 imax(i128 a, i128 b) { return a > b ? a : b; }
static i128 imin(i128 a, i128 b) { return a < b ? a : b; }

#define SIGNED_CASE(T, TMIN, TMAX, base) do { \
	T x = 0; intmax_t mn = (intmax_t)nd_u64(), mx = (intmax_t)nd_u64(); i128 v = 0; \
	if (mn >= (TMIN) && mx <= (TMAX) && mn <= (TMAX) && mx >= (TMIN)) { /* bounds within the target type (left to the caller by the interface) */ \
		int rc = PARSENUM_EX(&x, (const char *)S, mn, mx, base, TR); \
		int st = ref_num(S, N, base, TR, &v); \
		verdict(rc, st, v, mn, mx, (i128)x); \
	} } while (0)
#define UNSIGNED_CASE(T, TMAX, base) do { \
	T x = 0; intmax_t mn = (intmax_t)nd_u64(); i128 v = 0; \
	int st = ref_num(S, N, base, TR, &v); \
	if (nd_bool()) { intmax_t mx = (intmax_t)nd_u64();	/* max given as a signed expression (may be negative) */ \
		int rc = PARSENUM_EX(&x, (const char *)S, mn, mx, base, TR); \
		verdict(rc, st, v, imax(mn, 0), imin((i128)mx, (i128)(TMAX)), (i128)x); \
	} else { uintmax_t mx = nd_u64();	/* max given as an unsigned expression */ \
		int rc = PARSENUM_EX(&x, (const char *)S, mn, mx, base, TR); \
		verdict(rc, st, v, imax(mn, 0), imin((i128)mx, (i128)(TMAX)), (i128)x); \
	} } while (0)
/* two-argument form: bounds are the type's */
#define UNSIGNED2_CASE(T, TMAX) do { \
	T x = 0; i128 v = 0; \
	int rc = PARSENUM(&x, (const char *)S); \
	int st = ref_num(S, N, 0, 0, &v); \
	verdict(rc, st, v, 0, (i128)(TMAX), (i128)x); } while (0)

#define B_(b) SIGNED_CASE(TYPE_, TMIN_, TMAX_, b)
#define TYPE_ int8_t
#define TMIN_ INT8_MIN
#define TMAX_ INT8_MAX
void h_i8(void) { FOR_STRINGS({ BASES(B_); }); REACHED(); }
#undef TYPE_
#undef TMIN_
#undef TMAX_
#define TYPE_ int16_t
#define TMIN_ INT16_MIN
#define TMAX_ INT16_MAX
void h_i16(void) { FOR_STRINGS({ BASES(B_); }); REACHED(); }
#undef TYPE_
#undef TMIN_
#undef TMAX_
#define TYPE_ int32_t
#define TMIN_ INT32_MIN
#define TMAX_ INT32_MAX
void h_i32(void) { FOR_STRINGS({ BASES(B_); }); REACHED(); }
#undef TYPE_
#undef TMIN_
#undef TMAX_
#define TYPE_ intmax_t
#define TMIN_ INTMAX_MIN
#define TMAX_ INTMAX_MAX
void h_imax(void) { FOR_STRINGS({ BASES(B_); }); REACHED(); }
#undef TYPE_
#undef TMIN_
#undef TMAX_
#undef B_
#define B_(b) UNSIGNED_CASE(TYPE_, TMAX_, b)
#define TYPE_ uint8_t
#define TMAX_ UINT8_MAX
void h_u8(void) { FOR_STRINGS({ BASES(B_); }); REACHED(); }
void h_u8_2(void) { FOR_STRINGS({ UNSIGNED2_CASE(TYPE_, TMAX_); }); REACHED(); }
#undef TYPE_
#undef TMAX_
#define TYPE_ uint16_t
#define TMAX_ UINT16_MAX
void h_u16(void) { FOR_STRINGS({ BASES(B_); }); REACHED(); }
#undef TYPE_
#undef TMAX_
#define TYPE_ uint32_t
#define TMAX_ UINT32_MAX
void h_u32(void) { FOR_STRINGS({ BASES(B_); }); REACHED(); }
void h_u32_2(void) { FOR_STRINGS({ UNSIGNED2_CASE(TYPE_, TMAX_); }); REACHED(); }
#undef TYPE_
#undef TMAX_
#define TYPE_ size_t
#define TMAX_ SIZE_MAX
void h_size(void) { FOR_STRINGS({ BASES(B_); }); REACHED(); }
void h_size_2(void) { FOR_STRINGS({ UNSIGNED2_CASE(TYPE_, TMAX_); }); REACHED(); }
#undef TYPE_
#undef TMAX_
#define TYPE_ uintmax_t
#define TMAX_ UINTMAX_MAX
void h_umax(void) { FOR_STRINGS({ BASES(B_); }); REACHED(); }
#undef TYPE_
#undef TMAX_

/* float / double: wrapper logic over the strtod contract stub */
void h_float(void)
{
	FOR_STRINGS({
		double x = 0, mn, mx; union { uint64_t u; double d; } a, b; a.u = nd_u64(); b.u = nd_u64(); mn = a.d; mx = b.d;
		if (!isnan(mn) && !isnan(mx)) {
			errno = 0;
			double val = parsenum_float((const char *)S, mn, mx, TR);
			/* the stub's choices are visible through the returned value and errno only; restate the documented rule */
			if (errno == 0) CHECK(isnan(val) || (val >= mn && val <= mx), "success only within the bounds (NaN passes any bounds)");
			CHECK(errno == 0 || errno == EINVAL || errno == ERANGE, "only EINVAL / ERANGE");
		}
	});
	REACHED();
}
