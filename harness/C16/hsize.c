/* C16 (+C15): humansize_parse == reference language/value with 128-bit arithmetic; humansize() formatting for all 2^64 sizes */
#include <stdarg.h>
#include <stdint.h>
#include <stdlib.h>
#include <string.h>
#include "vh.h"
#include "stub_warnp.c"
#include "humansize.c"
#ifndef MAXL
#define MAXL 6
#endif
#ifndef MINL
#define MINL 0
#endif
typedef unsigned __int128 u128;
/* reference: digits+, optional ' ', optional one of kMGTPE, optional 'B'; value = digits * 1000^k; overflow past 2^64-1 rejected */
static int ref_parse(const uint8_t * s, size_t n, uint64_t * out)
{
	size_t i = 0; u128 v = 0; int over = 0, k = 0;
	if (n == 0 || s[0] < '0' || s[0] > '9') return -1;
	while (i < n && s[i] >= '0' && s[i] <= '9') { v = v * 10 + (u128)(s[i] - '0'); if (v > UINT64_MAX) { over = 1; v = UINT64_MAX; v += 1; } i++; }
	if (i < n && s[i] == ' ') i++;
	if (i < n) { const char * P = "kMGTPE"; for (int j = 0; j < 6; j++) if (s[i] == (uint8_t)P[j]) k = j + 1; if (k) i++; }
	if (i < n && s[i] == 'B') i++;
	if (i != n) return -1;
	for (int j = 0; j < k; j++) { v *= 1000; if (v > UINT64_MAX) { over = 1; v = (u128)UINT64_MAX + 1; } }
	if (over) return -1;
	*out = (uint64_t)v;
	return 0;
}
void h_parse(void)
{
	for (size_t n = MINL; n <= MAXL; n++) {
		uint8_t * s = malloc(n + 1);	/* exact-size NUL-terminated string: any over-read is a bounds violation (C15) */
		if (s == NULL) continue;
		int nonul = 1;
		for (size_t i = 0; i < n; i++) {
			s[i] = nd_u8(); if (s[i] == 0) nonul = 0;
#ifdef DIGITS_ONLY	/* long numerals: only digit strings (optionally one suffix letter at the end) -- the UINT64_MAX/10 and last-digit overflow edges */
			if (!((s[i] >= '0' && s[i] <= '9') || (i == n - 1 && (s[i] == 'k' || s[i] == 'B')))) nonul = 0;
#endif
		}
		s[n] = 0;
		if (nonul) {
			uint64_t got = 0x5555, want = 0;
			int rc = humansize_parse((const char *)s, &got);
			int rr = ref_parse(s, n, &want);
			CHECK(rc == 0 || rc == -1, "documented return values");
			CHECK((rc == 0) == (rr == 0), "accepts exactly: digits, optional space, optional one of kMGTPE, optional B, without overflow past 2^64-1");
			if (rc == 0 && rr == 0) CHECK(got == want, "value = digits x 1000^k");
		}
		free(s);
	}
	REACHED();
}

/* ---- formatting: asprintf is replaced by a stub that captures its arguments ---- */
static int cap_a, cap_b, cap_form = -1; static char cap_p; static char dummy;
int libcperciva_asprintf(char ** ret, const char * fmt, ...)
{
	va_list ap; va_start(ap, fmt);
	if (strcmp(fmt, "%d B") == 0) { cap_form = 0; cap_a = va_arg(ap, int); }
	else if (strcmp(fmt, "%d.%d %cB") == 0) { cap_form = 1; cap_a = va_arg(ap, int); cap_b = va_arg(ap, int); cap_p = (char)va_arg(ap, int); }
	else if (strcmp(fmt, "%d %cB") == 0) { cap_form = 2; cap_a = va_arg(ap, int); cap_p = (char)va_arg(ap, int); }
	else cap_form = 3;
	va_end(ap); *ret = &dummy; return 1;
}
#ifndef SLO
#define SLO 0
#define SHI UINT64_MAX
#endif
void h_format(void)
{
	uint64_t size = nd_u64();
	ASSUME(size >= SLO && size <= SHI);	/* case split on the magnitude (each case its own obligation; together all 2^64 sizes) */
	char * r = humansize(size);
	CHECK(r != NULL, "a string is returned");
	CHECK(cap_form >= 0 && cap_form <= 2, "one of the three documented forms");
	static const char P[] = " kMGTPE";
	if (cap_form == 0) { CHECK(size < 1000 && cap_a >= 0 && (uint64_t)cap_a == size, "below 1000: exact byte count"); }
	else {
		int n = 0;
		for (int j = 1; j <= 6; j++) if (P[j] == cap_p) n = j;
		CHECK(n >= 1, "SI prefix from kMGTPE");
		u128 unit = 1;
		for (int i = 0; i < 6; i++) if (i < n) unit *= 1000;
		u128 u10 = unit / 10, m, step;
		if (cap_form == 1) { CHECK(cap_a >= 1 && cap_a <= 9 && cap_b >= 0 && cap_b <= 9, "X.Y with X in 1..9"); m = (u128)(unsigned)(cap_a * 10 + cap_b); step = u10; }
		else { CHECK(cap_a >= 10 && cap_a <= 999, "two or three digits"); m = (u128)(unsigned)cap_a * 10; step = unit; }
		CHECK(m * u10 <= size, "formatted value does not exceed the size");
		CHECK(m * u10 + step > size, "the next representable value does: it is the largest representable value <= size");
	}
	REACHED();
}
