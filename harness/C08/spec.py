def obligations(tier):
    T = tier == "thorough"
    nm = 9 if T else 6
    obs = []
    common = dict(harness="body.c", unwind=nm + 6, unwindset=["findeol#0:%d" % (nm + 2), "vhs_scan#0:%d" % (nm + 3), "vhs_scan#1:%d" % (nm + 3)], backends=["cadical"], timeout=1800 if T else 280,
                  stubs=["netbuf_read_peek -> exact-size object with the unconsumed bytes; wait/consume recorded", "strtoumax -> C11 model (models/libc_strto.c)", "successor callbacks -> hand-over stubs", "network/close/warnp -> no-ops"],
                  bounds="<= %d buffered bytes (all byte values), body allocation <= 8 bytes, limits/lengths fully symbolic 64-bit" % nm)
    obs.append(dict(name="chunk-header-stage", entry="h_chunkhdr", defs=["NMAX=%d" % nm], replace=["callback_readdata:stub_readdata"],
                    claim="callback_chunkedheader on any buffered bytes, any status, any limits: no access outside the buffered data, no reachable assertion failure, at most one user callback / wait / hand-over; a data chunk is handed to the data stage only if chunk+CRLF fits the remaining limit", **common))
    obs.append(dict(name="chunk-header-stage-known-ws-overread", entry="h_chunkhdr", defs=["NMAX=%d" % nm], replace=["callback_readdata:stub_readdata"], kf_demo="http_chunkhdr_leading_ws",
                    claim="[demonstrates known finding http_chunkhdr_leading_ws]", **common))
    obs.append(dict(name="chunk-header-stage-known-crlf-limit", entry="h_chunkhdr", defs=["NMAX=%d" % nm], replace=["callback_readdata:stub_readdata"], kf_demo="http_chunk_crlf_vs_limit",
                    claim="[demonstrates known finding http_chunk_crlf_vs_limit]", **common))
    obs.append(dict(name="body-data-stage", entry="h_readdata", defs=["NMAX=%d" % nm], replace=["callback_chunkedheader:stub_chunkhdr"],
                    claim="callback_readdata from any state satisfying its precondition (remaining read fits the limit): body accumulation stays inside the allocation (capped realloc), no assertion failure, waits for min(remaining, 1 MiB), at most one callback / wait / hand-over", **common))
    obs.append(dict(name="toeof-and-content-length-stages", entry="h_toeof_gotclen", defs=["NMAX=%d" % nm], replace=["callback_readdata:stub_readdata"],
                    claim="callback_read_toeof and get_body_gotclen: oversized bodies reported as (size_t)(-1) with no buffer, otherwise within the limit; no assertion failure", **common))
    return obs
SELFTESTS = [dict(name="strto-models-vs-glibc", srcs=["/verif/models/selftest_strto.c"], cflags=["-I/verif/models"], what="strto models equal glibc on 3,000,000 strings")]
TRUSTED = ["CBMC 6.11 C semantics", "cadical", "models/libc_strto.c"]
ASSUMPTIONS = ["header parsing (callback_read_header, gotheaders), request construction and whole-stream runs have no obligations: that part of C08 is NOT decided here", "TLS variant outside the claim"]
EXPLANATION = ""
