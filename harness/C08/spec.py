def obligations(tier):
    T = tier == "thorough"
    nm = 9 if T else 6
    obs = []
    common = dict(harness="body.c", unwind=40, unwindset=["findeol#0:%d" % (nm + 2), "vhs_scan#0:%d" % (nm + 3), "vhs_scan#1:%d" % (nm + 3)], backends=["cadical"], timeout=1800 if T else 280,
                  stubs=["netbuf_read_peek -> exact-size object with the unconsumed bytes; wait/consume recorded", "strtoumax -> C11 model (models/libc_strto.c)", "successor callbacks -> hand-over stubs", "network/close/warnp -> no-ops"],
                  bounds="<= %d buffered bytes (all byte values), body allocation <= 8 bytes, limits/lengths fully symbolic 64-bit" % nm)
    obs.append(dict(name="chunk-header-stage", entry="h_chunkhdr", defs=["NMAX=%d" % nm], replace=["callback_readdata:stub_readdata"],
                    claim="callback_chunkedheader on any buffered bytes, any status, any limits: no access outside the buffered data, no reachable assertion failure, at most one user callback / wait / hand-over; a data chunk is handed to the data stage only if chunk+CRLF fits the remaining limit", **common))
    obs.append(dict(name="body-data-stage", entry="h_readdata", defs=["NMAX=%d" % nm], replace=["callback_chunkedheader:stub_chunkhdr"],
                    claim="callback_readdata from any state satisfying its precondition (remaining read fits the limit): body accumulation stays inside the allocation (capped realloc), no assertion failure, waits for min(remaining, 1 MiB), at most one callback / wait / hand-over", **common))
    obs.append(dict(name="toeof-and-content-length-stages", entry="h_toeof_gotclen", defs=["NMAX=%d" % nm], replace=["callback_readdata:stub_readdata"],
                    claim="callback_read_toeof and get_body_gotclen: oversized bodies reported as (size_t)(-1) with no buffer, otherwise within the limit; no assertion failure", **common))
    for hd in (16, 17):
        c2 = dict(common); c2["unwindset"] = ["findeol#0:%d" % (hd + 4), "vhs_scan#0:%d" % (hd + 5), "vhs_scan#1:%d" % (hd + 5)]; c2["bounds"] = "%d hex digits + CR LF, every digit symbolic; body allocation <= 8 bytes, limits fully symbolic" % hd
        obs.append(dict(name="chunk-header-stage-hex%d" % hd, entry="h_chunkhdr_long", defs=["NMAX=2", "HEXD=%d" % hd], replace=["callback_readdata:stub_readdata"],
                        claim="callback_chunkedheader on every chunk-size line of %d hex digits (values up to and beyond 2^64) with a body that may already hold data: the size handed to the data stage is the numeral's value and fits the remaining room (the comparison cannot wrap); too big => (size_t)(-1) report; beyond size_t => failure" % hd, **c2))
    REP = ["callback_chunkedheader:stub_chunkhdr", "get_body_gotclen:stub_gotclen", "callback_read_toeof:stub_toeof", "callback_read_header:stub_readheader"]
    REPP = REP + ["findeol:stub_findeol"]
    SHAPES = [("blank", [0]), ("status13", [13]), ("status13-h4", [13, 4]), ("status15-h3-h6", [15, 3, 6]), ("status13-clen17", [13, 17]), ("status9-h1", [9, 1])]
    if T: SHAPES += [("status13-te26", [13, 26]), ("status13-te26-clen17", [13, 26, 17]), ("status13-h0", [13, 0]), ("status13-h5-h5-h5", [13, 5, 5, 5]), ("status20-clen19", [20, 19]), ("status13-clen17-te26", [13, 17, 26])]
    for nm_, sh in SHAPES:
        n = sum(sh) + 2 * len(sh) + 2
        obs.append(dict(name="header-parse-stage-" + nm_, harness="hdr.c", entry="h_header", defs=["N=%d" % n, "EXTRA=2", "SHAPE={%s-1}" % "".join("%d," % x for x in sh)], replace=REPP, unwind=max(n + 8, 20), backends=["cadical"], timeout=1800 if T else 280,
                        claim="gotheaders on every header block with line lengths %s (CR LF exactly at the line ends, all other bytes symbolic): no access outside the data, no reachable assertion failure, exactly the block consumed, status in 100..599 on every path that goes on, at most one outcome, a discarded 1xx block restarts the scan at offset 0" % sh,
                        bounds="line lengths %s (%d bytes)" % (sh, n), stubs=["netbuf -> exact-size object", "findeol -> answers from the fixed line structure (real findeol: separate obligation)", "sscanf/strcspn/strspn/strstr -> C models validated against glibc", "body stages and 1xx re-entry -> recording stubs"]))
    obs.append(dict(name="findeol", harness="hdr.c", entry="h_findeol", defs=["N=8"], unwind=12, flags=["--object-bits", "10"], backends=["cadical"], timeout=1800 if T else 280,
                    claim="findeol == offset of the first CR LF or buflen, on every buffer of 0..7 bytes (exact-size objects)", bounds="<= 7 bytes", stubs=[]))
    for n in ([0, 3, 4, 5, 8, 11] if not T else list(range(0, 15))):
        obs.append(dict(name="header-scan-stage-n%d" % n, harness="hdr.c", entry="h_scan", defs=["NSCAN=%d" % n], replace=["gotheaders:stub_gotheaders"], unwind=n + 8, backends=["cadical"], timeout=1800 if T else 280,
                        claim="callback_read_header on %d buffered bytes from an arbitrary valid scan position: the block up to the FIRST blank line is handed to the parser; otherwise it waits for one more byte with the scan position still valid; failure/EOF => failure callback" % n,
                        bounds="%d buffered bytes" % n, stubs=["gotheaders -> recording stub"]))
    obs.append(dict(name="teardown-and-cancel", harness="life.c", entry="h_life", unwind=8, replace=["callback_read_header:stub_readheader"], backends=["cadical"], timeout=1800 if T else 280, flags=["--memory-leak-check"],
                    claim="http_request_cancel / die / fail / docallback / callback_connected from the CONNECTING and the CONNECTED state (optional header block, header array, body): every resource released exactly once, cancel and die never call back, fail calls back once with NULL, docallback once with the response and the body handed over, connection failure reported once, reader/writer/request-write failures tear everything down; nothing leaked, nothing freed twice",
                    bounds="both lifecycle states, every combination of optional buffers", stubs=["network_connect*, netbuf_* , close -> counting stubs", "callback_read_header -> stub"]))
    return obs
SELFTESTS = [dict(name="str-models-vs-glibc", srcs=["/verif/models/selftest_str.c"], cflags=["-I/verif/models"], what="strcspn/strspn/strstr/stpcpy/sscanf(HTTP status line) models equal glibc on 2,000,000 strings"), dict(name="strto-models-vs-glibc", srcs=["/verif/models/selftest_strto.c"], cflags=["-I/verif/models"], what="strto models equal glibc on 3,000,000 strings")]
TRUSTED = ["CBMC 6.11 C semantics", "cadical", "models/libc_strto.c"]
ASSUMPTIONS = ["whole-stream runs (all stages chained) have no obligation; stages are decided one at a time with hand-over contracts", "TLS variant outside the claim"]
EXPLANATION = ""
