/*
 * C08 + C09 (header stage): callback_read_header / gotheaders of http/http.c on a buffered header block handed out in
 * an exact-size object, followed by EXTRA body bytes.  The block length N is a constant per obligation and the
 * scan position is pre-set to N-4 (an arbitrary valid state: "no terminator before hepos"), so the header copy has a
 * concrete size; content is symbolic.  Successor stages and the 1xx re-entry are cut (--replace-calls) and recorded.
 * SAFETY (C08): every byte string.  EXACT (C09, -DEXACT): under the assumption that the block is well-formed, status,
 * header list (names, OWS-trimmed values, order) and the framing decision equal an independent reference parse.
 */
#include <ctype.h>
#include <errno.h>
#include <inttypes.h>
#include <stddef.h>
#include <stdint.h>
#include <stdio.h>
#include <stdlib.h>
#include <string.h>
#include "vh.h"
#include "stub_warnp.c"
#include "libc_strto.c"
#include "libc_str.c"
#undef isspace
#define isspace(c) vhs_space((unsigned char)(c))
#undef isxdigit
#define isxdigit(c) (vhs_digit((unsigned char)(c)) < 16)
#define strtoumax vh_strtoumax
#define strtoimax vh_strtoimax
#define strcspn vh_strcspn
#define strspn vh_strspn
#define strstr vh_strstr
#define stpcpy vh_stpcpy
#define sscanf(s, fmt, a, b, c) vh_sscanf_http(s, a, b, c)
/* forward declarations for the native replay (calls are rebound textually there) */
struct http_cookie;
int stub_chunkhdr(void *, int); int stub_gotclen(struct http_cookie *, size_t); int stub_toeof(void *, int); int stub_readheader(void *, int);
size_t stub_findeol(const uint8_t *, size_t); int stub_gotheaders(struct http_cookie *, uint8_t *, size_t); int stub_readdata(void *, int);
#include "http.c"
#ifndef N
#define N 20
#endif
#ifndef EXTRA
#define EXTRA 2
#endif
static uint8_t * DATA; static size_t DLEN; static int waits, wait_refuse, consumed_bad; static size_t wait_len, consumed;
void netbuf_read_peek(struct netbuf_read * R, uint8_t ** d, size_t * n) { (void)R; *d = DATA; *n = DLEN; }
void netbuf_read_consume(struct netbuf_read * R, size_t n) { (void)R; if (n > DLEN) { consumed_bad = 1; n = DLEN; } DATA += n; DLEN -= n; consumed += n; }
static size_t wait_hepos, wait_dlen;
int netbuf_read_wait(struct netbuf_read * R, size_t len, int (*cb)(void *, int), void * c) { (void)R; (void)cb; waits++; wait_len = len; wait_hepos = ((struct http_cookie *)c)->hepos; wait_dlen = DLEN; return wait_refuse ? -1 : 0; }
void netbuf_read_wait_cancel(struct netbuf_read * R) { (void)R; } void netbuf_read_free(struct netbuf_read * R) { (void)R; } void netbuf_write_free(struct netbuf_write * W) { (void)W; }
struct netbuf_read * netbuf_read_init(int s) { (void)s; return NULL; } struct netbuf_write * netbuf_write_init(int s, int (*f)(void *), void * c) { (void)s; (void)f; (void)c; return NULL; }
int netbuf_write_write(struct netbuf_write * W, const uint8_t * b, size_t n) { (void)W; (void)b; (void)n; return 0; }
void * network_connect(struct sock_addr * const * sas, int (*cb)(void *, int), void * c) { (void)sas; (void)cb; (void)c; return NULL; } void network_connect_cancel(void * c) { (void)c; }
int close(int fd) { (void)fd; return 0; }
/* outcomes */
enum { O_NONE = 0, O_CHUNKED, O_CLEN, O_TOEOF, O_INTERIM };
static int outcome_kind, outcomes; static size_t o_len, o_hepos; static int o_status; static size_t o_nh;
static struct http_header OH[8]; static char ONAME[8][N + 1], OVAL[8][N + 1];
static void snapshot(struct http_cookie * H)
{
	o_status = H->res.status; o_nh = H->res.nheaders;
	for (size_t i = 0; i < 8; i++) if (i < o_nh && H->res.headers != NULL) {
		size_t j = 0; for (; j < N && H->res.headers[i].header[j]; j++) ONAME[i][j] = H->res.headers[i].header[j]; ONAME[i][j] = 0;
		j = 0; for (; j < N && H->res.headers[i].value[j]; j++) OVAL[i][j] = H->res.headers[i].value[j]; OVAL[i][j] = 0;
	}
}
int stub_chunkhdr(void * c, int st) { (void)st; outcomes++; outcome_kind = O_CHUNKED; snapshot(c); return 0; }
int stub_gotclen(struct http_cookie * H, size_t len) { outcomes++; outcome_kind = O_CLEN; o_len = len; snapshot(H); return 0; }
int stub_toeof(void * c, int st) { (void)st; outcomes++; outcome_kind = O_TOEOF; snapshot(c); return 0; }
int stub_readheader(void * c, int st) { struct http_cookie * H = c; (void)st; outcomes++; outcome_kind = O_INTERIM; o_hepos = H->hepos; o_status = H->res.status; return 0; }
static int gh_calls; static uint8_t * gh_buf; static size_t gh_len;
int stub_gotheaders(struct http_cookie * H, uint8_t * buf, size_t buflen) { (void)H; gh_calls++; gh_buf = buf; gh_len = buflen; return 0; }
static int ucb_calls, ucb_null, ucb_status; static size_t ucb_bodylen; static void * ucb_body;
static int ucb(void * c, struct http_response * r)
{
	(void)c; ucb_calls++;
	if (r == NULL) { ucb_null = 1; return 0; }
	ucb_status = r->status; ucb_bodylen = r->bodylen; ucb_body = r->body; o_status = r->status; o_nh = r->nheaders;
	for (size_t i = 0; i < 8; i++) if (i < o_nh && r->headers != NULL) {
		size_t j = 0; for (; j < N && r->headers[i].header[j]; j++) ONAME[i][j] = r->headers[i].header[j]; ONAME[i][j] = 0;
		j = 0; for (; j < N && r->headers[i].value[j]; j++) OVAL[i][j] = r->headers[i].value[j]; OVAL[i][j] = 0;
	}
	return 0;
}
static uint8_t BLK[N + EXTRA];
/*
 * Line structure ("shape"): the lengths of the status line and of each header line are constants per obligation
 * (SHAPE = {l0, l1, ..., -1}); CR LF sit at the implied positions and nowhere else (assumed), every other byte is
 * symbolic.  findeol() is rebound to a stub that answers from the shape -- with line boundaries found by scanning
 * symbolic bytes the header count, and with it the size of the header array allocation, is symbolic and symex does not
 * finish (280 s even for 19 bytes).  The real findeol has its own obligation (h_findeol).
 */
#ifndef SHAPE
#define SHAPE {0, -1}
#endif
static const int SH[] = SHAPE;
static size_t eol_pos[12]; static size_t n_eol;	/* positions of every CRLF in BLK */
static uint8_t * res_head_base;
size_t stub_findeol(const uint8_t * buf, size_t buflen)
{
	/* position of buf inside the copied header block = (N - buflen) is not known here; the code always passes
	 * (&res_head[bufpos], res_headlen - bufpos), so bufpos = N - buflen */
	size_t bufpos = N - buflen;
	(void)buf;
	for (size_t k = 0; k < 12; k++) if (k < n_eol && eol_pos[k] >= bufpos) return eol_pos[k] - bufpos;
	return buflen;
}
#ifdef EXACT
/* ---- independent reference parse of a well-formed header block (RFC 7230 3.1.2 / 3.2 as restricted by the property) ---- */
static int r_ok, r_status; static size_t r_nh; static size_t r_ns[8], r_nl[8], r_vs[8], r_vl[8];	/* name/value start+length inside BLK */
static int tchar(uint8_t c) { return c > ' ' && c < 127 && c != ':' ; }
static void ref_parse(void)
{
	size_t p = 0;
	r_ok = 0; r_nh = 0;
	/* status line: HTTP/1.x SP 3DIGIT SP reason CRLF */
	if (!(N >= 17 && BLK[0] == 'H' && BLK[1] == 'T' && BLK[2] == 'T' && BLK[3] == 'P' && BLK[4] == '/' && BLK[5] == '1' && BLK[6] == '.' && BLK[7] >= '0' && BLK[7] <= '9' && BLK[8] == ' ')) return;
	for (int i = 9; i < 12; i++) if (!(BLK[i] >= '0' && BLK[i] <= '9')) return;
	r_status = (BLK[9] - '0') * 100 + (BLK[10] - '0') * 10 + (BLK[11] - '0');
	if (r_status < 100 || r_status > 599 || BLK[12] != ' ') return;	/* status codes outside 100..599 are rejected by the client (C08) */
	p = 13;
	while (p < N && BLK[p] != '\r') { if (BLK[p] == 0 || BLK[p] == '\n') return; p++; }
	if (!(p + 1 < N && BLK[p] == '\r' && BLK[p + 1] == '\n')) return;
	p += 2;
	/* header fields */
	while (p + 1 < N && !(BLK[p] == '\r' && BLK[p + 1] == '\n')) {
		if (r_nh >= 8) return;
		size_t ns = p;
		while (p < N && tchar(BLK[p])) p++;
		if (p == ns || p >= N || BLK[p] != ':') return;
		size_t nl = p - ns; p++;
		while (p < N && (BLK[p] == ' ' || BLK[p] == '\t')) p++;
		size_t vs = p;
		while (p < N && BLK[p] != '\r') { if (BLK[p] == 0 || BLK[p] == '\n') return; p++; }
		if (!(p + 1 < N && BLK[p + 1] == '\n')) return;
		size_t ve = p;
		while (ve > vs && (BLK[ve - 1] == ' ' || BLK[ve - 1] == '\t')) ve--;
		r_ns[r_nh] = ns; r_nl[r_nh] = nl; r_vs[r_nh] = vs; r_vl[r_nh] = ve - vs; r_nh++;
		p += 2;
	}
	if (p + 2 != N) return;	/* the blank line ends the block exactly */
	r_ok = 1;
}
static int name_is(size_t i, const char * s) { size_t l = strlen(s); if (r_nl[i] != l) return 0; for (size_t j = 0; j < l; j++) if (BLK[r_ns[i] + j] != (uint8_t)s[j]) return 0; return 1; }
static int val_has_chunked(size_t i) { for (size_t a = 0; a + 7 <= r_vl[i]; a++) { int m = 1; for (size_t j = 0; j < 7; j++) if (BLK[r_vs[i] + a + j] != (uint8_t)"chunked"[j]) m = 0; if (m) return 1; } return 0; }
#endif
void h_header(void)
{
	struct http_cookie * H = malloc(sizeof(*H)); ASSUME(H != NULL);
	memset(H, 0, sizeof(*H));
	H->s = -1; H->R = (void *)1; H->callback = ucb; H->req_ishead = nd_bool();
	int ishead = H->req_ishead;
	H->res_bodylen_max = nd_size();
	H->hepos = N - 4;	/* where the scan stage found the terminator */
	for (size_t i = 0; i < N + EXTRA; i++) BLK[i] = nd_u8();
	{	/* lay out the shape: line k occupies [p, p + SH[k]), followed by CR LF; a final CR LF ends the block */
		size_t p = 0;
		for (size_t k = 0; k < 10 && SH[k] >= 0; k++) { p += (size_t)SH[k]; eol_pos[n_eol++] = p; BLK[p] = '\r'; BLK[p + 1] = '\n'; p += 2; }
		eol_pos[n_eol++] = p; BLK[p] = '\r'; BLK[p + 1] = '\n'; p += 2;
		CHECK(p == N, "harness: N matches the shape");
		for (size_t i = 0; i + 1 < N; i++) { int iseol = 0; for (size_t k = 0; k < 12; k++) if (k < n_eol && eol_pos[k] == i) iseol = 1; if (!iseol) ASSUME(!(BLK[i] == '\r' && BLK[i + 1] == '\n')); }
	}
	uint8_t * d = malloc(N + EXTRA); ASSUME(d != NULL); memcpy(d, BLK, N + EXTRA);
	DATA = d; DLEN = N + EXTRA; wait_refuse = nd_bool();
	int term = (BLK[N - 4] == '\r' && BLK[N - 3] == '\n' && BLK[N - 2] == '\r' && BLK[N - 1] == '\n');
	(void)gotheaders(H, DATA, N);	/* the 1xx re-entry into callback_read_header is rebound to a recording stub */
	/* ---- C08: safety and single outcome ---- */
	CHECK(!consumed_bad, "never consumes more than is buffered");
	CHECK(ucb_calls <= 1 && outcomes <= 1 && ucb_calls + outcomes + (waits > 0 && !wait_refuse) <= 1 && waits <= 1, "at most one of: user callback, hand-over to a body stage, interim restart, wait");
	if (outcomes == 1 || (ucb_calls == 1 && !ucb_null)) CHECK(o_status >= 100 && o_status <= 599, "status in 100..599 whenever the response goes any further");
	if (outcomes == 1) CHECK(consumed == N, "exactly the header block is consumed before the body stage");
	if (ucb_calls == 1 && !ucb_null) CHECK(ucb_bodylen == 0 && ucb_body == NULL, "bodiless response (HEAD / 204 / 304)");
	if (outcome_kind == O_INTERIM) {
		CHECK(o_status >= 100 && o_status <= 199, "only 1xx responses are discarded");
		CHECK(o_hepos == 0, "after a discarded interim (1xx) block the terminator scan restarts at the beginning of the unconsumed data");
	}
#ifdef EXACT
	ref_parse();
	/* framing headers (first occurrence wins); a Content-Length that decides the framing must be a decimal numeral */
	int te = -1, cl = -1, clen_ok = 0; size_t clen_v = 0;
	if (r_ok) {
		for (size_t k = 8; k-- > 0; ) if (k < r_nh) { if (name_is(k, "Transfer-Encoding")) te = (int)k; if (name_is(k, "Content-Length")) cl = (int)k; }
		if (cl >= 0) { clen_ok = r_vl[cl] > 0 && r_vl[cl] <= 6; for (size_t j = 0; j < 6; j++) if (j < r_vl[cl]) { uint8_t ch = BLK[r_vs[cl] + j]; if (ch < '0' || ch > '9') clen_ok = 0; else clen_v = clen_v * 10 + (size_t)(ch - '0'); } }
		int nobody_ = ishead || r_status == 204 || r_status == 304 || (r_status >= 100 && r_status <= 199);
		int chunked_ = te >= 0 && val_has_chunked((size_t)te);
		if (!nobody_ && !chunked_ && cl >= 0 && !clen_ok) r_ok = 0;	/* malformed Content-Length: outside "well-formed" */
	}
	if (term && r_ok) {
		CHECK(ucb_calls + outcomes == 1 && !ucb_null, "a well-formed header block is accepted");
		CHECK(o_status == r_status, "status code");
		if (outcome_kind != O_INTERIM) {
			CHECK(o_nh == r_nh, "number of header fields");
			size_t i = nd_size(); ASSUME(i < 8);
			if (i < r_nh) {
				size_t j = nd_size(); ASSUME(j < N);
				CHECK(strlen(ONAME[i]) == r_nl[i] && strlen(OVAL[i]) == r_vl[i], "header name and OWS-trimmed value lengths, in order");
				if (j < r_nl[i]) CHECK((uint8_t)ONAME[i][j] == BLK[r_ns[i] + j], "header name bytes");
				if (j < r_vl[i]) CHECK((uint8_t)OVAL[i][j] == BLK[r_vs[i] + j], "header value bytes");
			}
			/* framing selection order: HEAD/204/304, then chunked, then Content-Length, then read-to-EOF */
			if (ishead || r_status == 204 || r_status == 304) CHECK(ucb_calls == 1 && outcomes == 0, "HEAD / 204 / 304: bodiless, callback at once");
			else if (te >= 0 && val_has_chunked((size_t)te)) CHECK(outcome_kind == O_CHUNKED, "Transfer-Encoding: chunked => chunked body");
			else if (cl >= 0 && clen_ok) { CHECK(outcome_kind == O_CLEN && o_len == clen_v, "Content-Length: n => exactly n body bytes"); }
			else if (cl < 0) CHECK(outcome_kind == O_TOEOF, "no framing header => body until the connection closes");
		} else {
			CHECK(r_status >= 100 && r_status <= 199, "only 1xx responses are discarded");
		}
		REACHED();	/* the witness of an EXACT obligation is a WELL-FORMED block that reaches the comparison */
	}
#else
	REACHED();
#endif
}

/* ---- scan stage: callback_read_header with gotheaders rebound to a recording stub ---- */
#ifndef NSCAN
#define NSCAN 6
#endif
void h_scan(void)
{
	struct http_cookie * H = malloc(sizeof(*H)); ASSUME(H != NULL);
	memset(H, 0, sizeof(*H));
	H->s = -1; H->R = (void *)1; H->callback = ucb;
	size_t n = NSCAN;	/* buffered bytes: a constant per obligation */
	uint8_t * d = malloc(n); ASSUME(d != NULL || n == 0);
	for (size_t i = 0; i < n; i++) d[i] = nd_u8();
	DATA = d; DLEN = n;
	size_t hp = nd_size(); ASSUME(hp <= (n >= 3 ? n - 3 : 0));	/* invariant: scan position inside the data ... */
	for (size_t i = 0; i + 4 <= n; i++) if (i < hp) ASSUME(!(d[i] == '\r' && d[i + 1] == '\n' && d[i + 2] == '\r' && d[i + 3] == '\n'));	/* ... and no terminator before it */
	H->hepos = hp; wait_refuse = nd_bool();
	int status = nd_int_in(-1, 1);
	(void)callback_read_header(H, status);
	size_t first = n;	/* first terminator in the data */
	for (size_t i = n; i-- > 0; ) if (i + 4 <= n && d[i] == '\r' && d[i + 1] == '\n' && d[i + 2] == '\r' && d[i + 3] == '\n') first = i;
	if (status != 0) { CHECK(ucb_calls == 1 && ucb_null && gh_calls == 0, "read failure or EOF during the headers => failure callback"); }
	else if (first < n) { CHECK(gh_calls == 1 && gh_buf == d && gh_len == first + 4 && ucb_calls == 0 && waits == 0, "the header block up to and including the FIRST blank line is handed to the parser"); }
	else {
		CHECK(gh_calls == 0, "no terminator => nothing parsed");
		CHECK(waits == 1 && wait_len == n + 1, "waits for at least one more byte");
		if (!wait_refuse) { CHECK(ucb_calls == 0, "no callback while waiting"); CHECK(wait_hepos <= (n >= 3 ? n - 3 : 0), "scan position stays inside the data with no terminator before it"); }
	}
	REACHED();
}

void h_findeol(void)
{
	for (size_t n = 0; n <= 7; n++) {
		uint8_t * b = malloc(n); if (b == NULL && n > 0) continue;
		for (size_t i = 0; i < n; i++) b[i] = nd_u8();
		size_t r = findeol(b, n), want = n;
		for (size_t i = n; i-- > 0; ) if (i + 2 <= n && b[i] == '\r' && b[i + 1] == '\n') want = i;
		CHECK(r == want, "findeol returns the offset of the first CR LF, or buflen (exact-size objects: no over-read)");
		free(b);
	}
	REACHED();
}
