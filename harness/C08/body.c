/*
 * C08 (body framing): the response-body callbacks of http/http.c -- callback_chunkedheader, callback_readdata,
 * callback_read_toeof, get_body_gotclen -- as step obligations from an ARBITRARY request state
 * (bodylen <= alloc <= max, body an object of exactly alloc bytes, limits symbolic incl. 0 and SIZE_MAX) on an
 * arbitrary buffered byte string.  netbuf_read_peek hands out the unconsumed bytes in an object of EXACTLY their
 * size, so any access past the data is a bounds violation wherever the real buffer would end.  Successor callbacks
 * are cut (--replace-calls) and replaced by stubs that record the hand-over state and check the successor's
 * precondition (unrolled, the mutual recursion needs 26 GB).
 */
#include <ctype.h>
#include <errno.h>
#include <inttypes.h>
#include <stddef.h>
#include <stdint.h>
#include <stdlib.h>
#include "vh.h"
#include "stub_warnp.c"
#include "libc_strto.c"
#undef isspace
#define isspace(c) vhs_space((unsigned char)(c))
#undef isxdigit
#define isxdigit(c) (vhs_digit((unsigned char)(c)) < 16)
#define strtoumax vh_strtoumax
#define strtoimax vh_strtoimax
/* forward declarations for the native replay (calls are rebound textually there) */
struct http_cookie;
int stub_chunkhdr(void *, int); int stub_gotclen(struct http_cookie *, size_t); int stub_toeof(void *, int); int stub_readheader(void *, int);
size_t stub_findeol(const uint8_t *, size_t); int stub_gotheaders(struct http_cookie *, uint8_t *, size_t); int stub_readdata(void *, int);
#include "http.c"
/* ---- netbuf / network models ---- */
static uint8_t * DATA; static size_t DLEN; static int waits, wait_refuse, consumed_bad; static size_t wait_len; static int (*wait_cb)(void *, int);
void netbuf_read_peek(struct netbuf_read * R, uint8_t ** d, size_t * n) { (void)R; *d = DATA; *n = DLEN; }
void netbuf_read_consume(struct netbuf_read * R, size_t n) { (void)R; if (n > DLEN) { consumed_bad = 1; n = DLEN; } DATA += n; DLEN -= n; }
int netbuf_read_wait(struct netbuf_read * R, size_t len, int (*cb)(void *, int), void * c) { (void)R; (void)c; waits++; wait_len = len; wait_cb = cb; return wait_refuse ? -1 : 0; }
void netbuf_read_wait_cancel(struct netbuf_read * R) { (void)R; } void netbuf_read_free(struct netbuf_read * R) { (void)R; } void netbuf_write_free(struct netbuf_write * W) { (void)W; }
struct netbuf_read * netbuf_read_init(int s) { (void)s; return NULL; } struct netbuf_write * netbuf_write_init(int s, int (*f)(void *), void * c) { (void)s; (void)f; (void)c; return NULL; }
int netbuf_write_write(struct netbuf_write * W, const uint8_t * b, size_t n) { (void)W; (void)b; (void)n; return 0; }
void * network_connect(struct sock_addr * const * sas, int (*cb)(void *, int), void * c) { (void)sas; (void)cb; (void)c; return NULL; } void network_connect_cancel(void * c) { (void)c; }
int close(int fd) { (void)fd; return 0; }
/* ---- user callback ---- */
static int ucb_calls, ucb_null, ucb_bad; static size_t max0;
static uint8_t CB_BODY[32]; static size_t cb_bodylen;
static int ucb(void * c, struct http_response * r)
{
	(void)c; ucb_calls++;
	if (r == NULL) { ucb_null = 1; return 0; }
	if (r->bodylen == (size_t)(-1)) { if (r->body != NULL) ucb_bad = 1; }
	else { if (r->bodylen > max0) ucb_bad = 1; if (r->bodylen > 0 && r->body == NULL) ucb_bad = 1; cb_bodylen = r->bodylen; for (size_t i = 0; i < 32; i++) if (i < r->bodylen && r->body != NULL) CB_BODY[i] = r->body[i]; }
	free(r->body);
	return 0;
}
#ifndef NMAX
#define NMAX 6
#endif
static struct http_cookie * mk(void)
{
	struct http_cookie * H = malloc(sizeof(*H)); ASSUME(H != NULL);
	H->connect_cookie = NULL; H->R = (void *)1; H->W = NULL; H->ssl = NULL; H->s = -1; H->sslhost = NULL; H->req_head = NULL; H->res_head = NULL; H->res.headers = NULL;
	H->callback = ucb; H->cookie = NULL; H->chunked = nd_bool(); H->res.status = 200; H->res.nheaders = 0;
	H->res_bodylen_max = nd_size(); H->res.bodylen = nd_size(); H->res_bodylen_alloc = nd_size(); H->readlen = nd_size();
	/* representation invariant: bodylen <= alloc <= max + slack, where slack = 2 while a chunk's trailing CRLF may be stored */
	size_t slack = (H->chunked && H->res_bodylen_max <= SIZE_MAX - 2) ? 2 : 0;
	ASSUME(H->res.bodylen <= H->res_bodylen_alloc && H->res_bodylen_alloc <= 8 && (H->res_bodylen_alloc <= H->res_bodylen_max || H->res_bodylen_alloc - H->res_bodylen_max <= slack));
	H->res.body = H->res_bodylen_alloc ? malloc(H->res_bodylen_alloc) : NULL; ASSUME(H->res_bodylen_alloc == 0 || H->res.body != NULL);
	max0 = H->res_bodylen_max;
	size_t n = nd_size_le(NMAX);
	uint8_t * d = malloc(n); ASSUME(d != NULL || n == 0);
	for (size_t i = 0; i < NMAX; i++) if (i < n) d[i] = nd_u8();
	DATA = d; DLEN = n;
	wait_refuse = nd_bool();
	return H;
}
static void outcome(int handed_over)
{
	CHECK(!consumed_bad, "never consumes more than is buffered");
	CHECK(!ucb_bad, "a response handed to the caller has a body no longer than the limit, or length (size_t)(-1) and no buffer");
	CHECK(ucb_calls + (waits > 0 && !wait_refuse) + handed_over <= 1 && ucb_calls <= 1, "exactly one of: one user callback, one wait registered, hand-over to the next stage (or clean abort)");
}
/* successors of the chunk header stage */
static int ho_readdata; static size_t ho_readlen, ho_bodylen, ho_max; static int ho_chunked;
int stub_readdata(void * c, int status)
{
	struct http_cookie * H = c; (void)status;
	ho_readdata++; ho_readlen = H->readlen; ho_bodylen = H->res.bodylen; ho_max = H->res_bodylen_max; ho_chunked = H->chunked;
	return 0;
}
void h_chunkhdr(void)
{
	struct http_cookie * H = mk();
	H->chunked = 1;
	ASSUME(H->res.bodylen <= H->res_bodylen_max);	/* between chunks no CRLF is stored */
#ifdef KF_http_chunkhdr_leading_ws
	ASSUME(DLEN == 0 || !vhs_space(DATA[0]));	/* known finding: a chunk-size line that starts with white space (e.g. an empty line) */
#endif
	int status = nd_int_in(-1, 1);
	(void)callback_chunkedheader(H, status);
	if (ho_readdata) {
		CHECK(ho_readlen >= 3, "a data chunk is handed over with its trailing CRLF");
		CHECK(ho_readlen - 2 <= ho_max - ho_bodylen, "chunk size checked against the remaining limit");
		CHECK(ho_chunked == 1, "the data stage knows it is reading a chunk (its trailing CRLF is allowed for and stripped)");
	}
	outcome(ho_readdata);
	REACHED();
}
/* chunk-size lines of HEXD hex digits (16 = the full width of size_t, 17 = one more): sizes near 2^64 against a body
 * that already holds data -- the remaining-room comparison must not wrap */
#ifndef HEXD
#define HEXD 16
#endif
void h_chunkhdr_long(void)
{
	struct http_cookie * H = mk();
	H->chunked = 1;
	ASSUME(H->res.bodylen <= H->res_bodylen_max);
	uint8_t * d = malloc(HEXD + 2); ASSUME(d != NULL);
	unsigned __int128 v = 0;
	for (size_t i = 0; i < HEXD; i++) { d[i] = nd_u8(); ASSUME(vhs_digit(d[i]) < 16); v = v * 16 + (unsigned)vhs_digit(d[i]); }
	d[HEXD] = '\r'; d[HEXD + 1] = '\n';
	DATA = d; DLEN = HEXD + 2;
	size_t bl0 = H->res.bodylen, mx = H->res_bodylen_max;
	(void)callback_chunkedheader(H, 0);
	if (ho_readdata) {
		CHECK(ho_readlen >= 3, "a data chunk is handed over with its trailing CRLF");
		CHECK(ho_readlen - 2 <= ho_max - ho_bodylen, "chunk size checked against the remaining limit (no wrap-around)");
		CHECK(v <= (unsigned __int128)(mx - bl0) && (unsigned __int128)(ho_readlen - 2) == v, "the size handed over is the numeral's value");
	} else if (v == 0) CHECK(ucb_calls == 1 && !ucb_null && cb_bodylen == bl0, "size 0: the body is complete and delivered");
	else if (v > (unsigned __int128)SIZE_MAX) CHECK(ucb_calls == 1 && ucb_null, "a numeral beyond size_t fails the request");
	else CHECK(ucb_calls == 1 && !ucb_null, "chunk beyond the remaining room: reported as too big, never read");
	if (v != 0 && v <= (unsigned __int128)SIZE_MAX - 2 && v <= (unsigned __int128)(mx - bl0)) CHECK(ho_readdata == 1, "a chunk that fits is read");
	outcome(ho_readdata);
	REACHED();
}
/* successor of the data stage */
static int ho_chunkhdr;
int stub_chunkhdr(void * c, int status) { (void)c; (void)status; ho_chunkhdr++; return 0; }
void h_readdata(void)
{
	struct http_cookie * H = mk();
	/* precondition established by the previous stage: the data still to come fits under the limit; a chunk's trailing
	 * CRLF (stored until the chunk is complete, then stripped) may exceed it by 2 */
	{
		size_t sl = (H->chunked && H->res_bodylen_max <= SIZE_MAX - 2) ? 2 : 0, lim = H->res_bodylen_max + sl;
		ASSUME(H->readlen >= 1 && H->res.bodylen <= lim && H->readlen <= lim - H->res.bodylen);
		if (H->chunked) ASSUME(H->readlen + H->res.bodylen >= 2);
	}
	/* zero bytes buffered and no body buffer yet => memcpy(NULL + 0, p, 0): nothing is copied; CBMC's memcpy precondition
	 * (and C11 7.24.1p2 to the letter) objects, which is stricter than the property -- excluded, noted in DESIGN.md */
	ASSUME(DLEN > 0 || H->res.body != NULL);
	size_t rl0 = H->readlen, bl0 = H->res.bodylen;
	int status = nd_int_in(-1, 1);
	(void)callback_readdata(H, status);
	if (status == 0 && ucb_calls == 0 && !ho_chunkhdr && waits && !wait_refuse) {
		CHECK(wait_cb == callback_readdata && wait_len >= 1 && wait_len <= H->readlen, "waits for at least one and at most the remaining bytes (the 1 MiB cap is an implementation choice)");
	}
	(void)rl0; (void)bl0;
	outcome(ho_chunkhdr);
	REACHED();
}
void h_toeof_gotclen(void)
{
	struct http_cookie * H = mk();
	ASSUME(!H->chunked);	/* set to 0 when the request is created; only the chunked path sets it */
	ASSUME(DLEN > 0 || H->res.body != NULL);	/* as in h_readdata */
	if (nd_bool()) {
		int status = nd_int_in(-1, 1);
		(void)callback_read_toeof(H, status);
	} else {
		H->res.bodylen = 0;	/* Content-Length framing starts with an empty body */
		size_t len = nd_size();
		(void)get_body_gotclen(H, len);
	}
	outcome(0);
	REACHED();
}

/* ---------------- C09: exactness of the body stages on well-formed input ---------------- */
void h_readdata_exact(void)
{
	struct http_cookie * H = mk();
	{
		size_t sl = (H->chunked && H->res_bodylen_max <= SIZE_MAX - 2) ? 2 : 0, lim = H->res_bodylen_max + sl;
		ASSUME(H->readlen >= 1 && H->res.bodylen <= lim && H->readlen <= lim - H->res.bodylen);
		if (H->chunked) ASSUME(H->readlen + H->res.bodylen >= 2);
	}
	ASSUME(DLEN > 0 || H->res.body != NULL);
	ASSUME(!wait_refuse);
	static uint8_t D0[NMAX], B0[8];
	size_t d0n = DLEN, bl0 = H->res.bodylen, rl0 = H->readlen; int ch0 = H->chunked;
	for (size_t i = 0; i < NMAX; i++) if (i < d0n) D0[i] = DATA[i];
	for (size_t i = 0; i < 8; i++) if (i < bl0) B0[i] = H->res.body[i];
	(void)callback_readdata(H, 0);
	size_t take = d0n < rl0 ? d0n : rl0;
	CHECK(DLEN == d0n - take, "exactly min(buffered, remaining) bytes are consumed");
	size_t i = nd_size(); ASSUME(i < 32);
	if (ucb_calls == 1) {	/* Content-Length body complete */
		CHECK(!ucb_null && !ch0 && take == rl0, "callback exactly when the announced length has arrived");
		CHECK(cb_bodylen == bl0 + take, "body length = bytes received");
		if (i < cb_bodylen) CHECK(CB_BODY[i] == (i < bl0 ? B0[i] : D0[i - bl0]), "body = previous body || newly arrived bytes, in order");
	} else if (ho_chunkhdr) {	/* chunk complete: trailing CRLF stripped, on to the next chunk-size line */
		CHECK(ch0 && take == rl0 && H->res.bodylen == bl0 + take - 2, "chunk data kept, its CRLF stripped");
		if (i < H->res.bodylen) CHECK(H->res.body[i] == (i < bl0 ? B0[i] : D0[i - bl0]), "body = previous body || chunk data, in order");
	} else {	/* more to come */
		CHECK(waits == 1 && take < rl0 && H->readlen == rl0 - take && H->res.bodylen == bl0 + take, "partial arrival recorded, waiting for the rest");
		if (i < H->res.bodylen) CHECK(H->res.body[i] == (i < bl0 ? B0[i] : D0[i - bl0]), "body = previous body || newly arrived bytes, in order");
	}
	REACHED();
}
void h_chunkhdr_exact(void)
{
	struct http_cookie * H = mk();
	H->chunked = 1;
	ASSUME(H->res.bodylen <= H->res_bodylen_max);
	ASSUME(!wait_refuse);
	size_t d0n = DLEN, bl0 = H->res.bodylen, mx = H->res_bodylen_max;
	/* well-formed chunk-size line: 1..2 hex digits, optional ';' extension (no CR/LF inside), CR LF */
	size_t nd_ = 0; size_t v = 0;
	for (size_t k = 0; k < 2; k++) if (nd_ == k && k < d0n && vhs_digit(DATA[k]) < 16) { v = v * 16 + (size_t)vhs_digit(DATA[k]); nd_++; }
	ASSUME(nd_ >= 1);
	size_t e = nd_;	/* end of the line */
	int ok = 1;
	if (e < d0n && DATA[e] == ';') { e++; for (size_t k = 0; k < NMAX; k++) if (e < d0n && DATA[e] != '\r' && DATA[e] != '\n' && k < NMAX) e++; }
	ASSUME(e + 2 <= d0n && DATA[e] == '\r' && DATA[e + 1] == '\n');
	for (size_t k = 0; k + 1 < NMAX; k++) if (k < e) ASSUME(!(DATA[k] == '\r' && DATA[k + 1] == '\n'));
	(void)ok;
	(void)callback_chunkedheader(H, 0);
	if (v == 0) { CHECK(ucb_calls == 1 && !ucb_null && cb_bodylen == bl0, "size 0: the body is complete and delivered"); }
	else if (v > mx - bl0) { CHECK(ucb_calls == 1 && !ucb_null, "chunk beyond the limit: reported as too big"); }
	else {
		CHECK(ho_readdata == 1 && ho_readlen == v + 2, "the data stage is asked for exactly chunk-size bytes plus the CRLF (extensions ignored)");
		CHECK(DLEN == d0n - (e + 2), "exactly the chunk-size line is consumed");
	}
	REACHED();
}
