/*
 * C08 (teardown / cancellation): http_request_cancel, die, fail, docallback and callback_connected of http/http.c from
 * the two lifecycle states a request can be in -- CONNECTING (connect cookie, no reader/writer/socket) and CONNECTED
 * (reader, writer, socket, optional header block / header array / body buffer).
 * Checked: every resource is released exactly once (connect attempt cancelled, pending wait cancelled, reader and
 * writer freed, socket closed, buffers and the cookie freed: --memory-leak-check + double-free checks); cancel and die
 * never call back; fail calls back once with NULL; docallback calls back once with the response and hands the body
 * buffer over (not freed); a connection failure is reported once; reader/writer creation or the request write failing
 * tears everything down (fatal error returned to the event loop).
 */
#include <ctype.h>
#include <errno.h>
#include <inttypes.h>
#include <stddef.h>
#include <stdint.h>
#include <stdio.h>
#include <stdlib.h>
#include "vh.h"
#include "stub_warnp.c"
#include "libc_strto.c"
#include "libc_str.c"
#undef isspace
#define isspace(c) vhs_space((unsigned char)(c))
#undef isxdigit
#define isxdigit(c) (vhs_digit((unsigned char)(c)) < 16)
#define strtoumax vh_strtoumax
#define strtoimax vh_strtoimax
#define strcspn vh_strcspn
#define strspn vh_strspn
#define strstr vh_strstr
#define sscanf(s, fmt, a, b, c) vh_sscanf_http(s, a, b, c)
struct http_cookie;
int stub_readheader(void *, int);
#include "http.c"
static char TOKC, TOKR, TOKW;
static int cc_cancel, r_waitcancel, r_free, w_free, closes, close_fd, bad, r_init_fail, w_init_fail, wr_fail, wr_calls, order_bad;
void * network_connect(struct sock_addr * const * sas, int (*cb)(void *, int), void * c) { (void)sas; (void)cb; (void)c; return &TOKC; }
void network_connect_cancel(void * c) { if (c != &TOKC) bad = 1; cc_cancel++; }
struct netbuf_read * netbuf_read_init(int s) { (void)s; return r_init_fail ? NULL : (struct netbuf_read *)&TOKR; }
struct netbuf_write * netbuf_write_init(int s, int (*f)(void *), void * c) { (void)s; if (f != fail || c == NULL) bad = 1; return w_init_fail ? NULL : (struct netbuf_write *)&TOKW; }
int netbuf_write_write(struct netbuf_write * W, const uint8_t * b, size_t n) { (void)b; (void)n; if (W != (void *)&TOKW || w_free) bad = 1; wr_calls++; return wr_fail ? -1 : 0; }
void netbuf_read_peek(struct netbuf_read * R, uint8_t ** d, size_t * n) { (void)R; *d = NULL; *n = 0; }
void netbuf_read_consume(struct netbuf_read * R, size_t n) { (void)R; (void)n; }
int netbuf_read_wait(struct netbuf_read * R, size_t len, int (*cb)(void *, int), void * c) { (void)R; (void)len; (void)cb; (void)c; return 0; }
void netbuf_read_wait_cancel(struct netbuf_read * R) { if (R != (void *)&TOKR || r_free) bad = 1; r_waitcancel++; }
void netbuf_read_free(struct netbuf_read * R) { if (R != (void *)&TOKR) bad = 1; if (!r_waitcancel) order_bad = 1; r_free++; }
void netbuf_write_free(struct netbuf_write * W) { if (W != (void *)&TOKW) bad = 1; w_free++; }
int close(int fd) { closes++; close_fd = fd; if (!(r_free || !r_waitcancel)) {} return 0; }
static int rh_calls;
int stub_readheader(void * c, int st) { (void)c; (void)st; rh_calls++; return 0; }
static int u_calls, u_null, u_rc; static uint8_t * u_body; static size_t u_bodylen; static char UC;
static int ucb(void * c, struct http_response * r) { if (c != &UC) bad = 1; u_calls++; if (r == NULL) u_null = 1; else { u_body = r->body; u_bodylen = r->bodylen; } return u_rc; }

static struct http_cookie * mk(int connected)
{
	struct http_cookie * H = malloc(sizeof(*H)); ASSUME(H != NULL);
	H->callback = ucb; H->cookie = &UC; H->ssl = NULL; H->sslhost = NULL; H->chunked = 0;
	H->req_head = malloc(7); ASSUME(H->req_head != NULL); H->req_headlen = 7; H->req_body = NULL; H->req_bodylen = nd_bool() ? 3 : 0; H->req_ishead = 0;
	static uint8_t RB[3]; if (H->req_bodylen) H->req_body = RB;
	H->res_head = NULL; H->res.headers = NULL; H->res.nheaders = 0; H->res.body = NULL; H->res.bodylen = 0; H->res_bodylen_alloc = 0; H->res_bodylen_max = 100; H->res.status = 200; H->hepos = 0; H->res_headlen = 0; H->readlen = 0;
	if (!connected) { H->connect_cookie = &TOKC; H->R = NULL; H->W = NULL; H->s = -1; }
	else {
		H->connect_cookie = NULL; H->R = (struct netbuf_read *)&TOKR; H->W = (struct netbuf_write *)&TOKW; H->s = 5;
		if (nd_bool()) { H->res_head = malloc(9); ASSUME(H->res_head != NULL); }
		if (nd_bool()) { H->res.headers = malloc(2 * sizeof(struct http_header)); ASSUME(H->res.headers != NULL); H->res.nheaders = 2; }
		if (nd_bool()) { H->res.body = malloc(4); ASSUME(H->res.body != NULL); H->res.bodylen = 3; H->res_bodylen_alloc = 4; }
	}
	return H;
}
static void released(int connected, int body_passed)
{
	CHECK(!bad && !order_bad, "every release call gets the object it belongs to; the pending wait is cancelled before the reader is freed");
	if (connected) CHECK(cc_cancel == 0 && r_waitcancel == 1 && r_free == 1 && w_free == 1 && closes == 1 && close_fd == 5, "connected: wait cancelled, reader and writer freed, socket closed -- once each");
	else CHECK(cc_cancel == 1 && r_free == 0 && w_free == 0 && closes == 0, "connecting: the connection attempt is cancelled once; nothing else to release");
	(void)body_passed;
}
void h_life(void)
{
	int connected = nd_bool();
	struct http_cookie * H = mk(connected);
	uint8_t * body0 = H->res.body;
	u_rc = nd_int();
	int op = nd_int_in(0, 4);
	if (op == 0) { http_request_cancel(H); CHECK(u_calls == 0, "cancel never calls back"); released(connected, 0); }
	else if (op == 1) { int rc = die(H); CHECK(rc == -1 && u_calls == 0, "fatal error: -1 to the event loop, no callback"); released(connected, 0); }
	else if (op == 2) { int rc = fail(H); CHECK(rc == u_rc && u_calls == 1 && u_null, "failure: exactly one callback with no response; its status is passed on"); released(connected, 0); }
	else if (op == 3) {
		int rc = docallback(H);
		CHECK(rc == u_rc && u_calls == 1 && !u_null && u_body == body0, "completion: exactly one callback with the response; its status is passed on");
		released(connected, 1);
		free(body0);	/* the callback owns the body buffer: it must still be allocated here (double free / leak checks) */
	} else {
		ASSUME(!connected);
		int s = nd_bool() ? -1 : 5;
		r_init_fail = nd_bool(); w_init_fail = nd_bool(); wr_fail = nd_bool();
		int rc = callback_connected(H, s);
		if (s == -1) { CHECK(rc == u_rc && u_calls == 1 && u_null && cc_cancel == 0 && closes == 0 && r_free == 0 && w_free == 0, "connection failed: reported once, nothing to release but memory"); }
		else if (r_init_fail) { CHECK(rc == -1 && u_calls == 0 && closes == 1 && close_fd == 5 && r_free == 0 && w_free == 0 && cc_cancel == 0, "no reader: socket closed, fatal"); }
		else if (w_init_fail) { CHECK(rc == -1 && u_calls == 0 && closes == 1 && r_waitcancel == 1 && r_free == 1 && w_free == 0 && cc_cancel == 0 && !bad, "no writer: reader freed, socket closed, fatal"); }
		else if (wr_fail) { CHECK(rc == -1 && u_calls == 0 && closes == 1 && r_free == 1 && w_free == 1 && cc_cancel == 0 && !bad, "request could not be queued: everything torn down, fatal"); }
		else {
			CHECK(rc == 0 && u_calls == 0 && rh_calls == 1 && wr_calls == (H->req_bodylen ? 2 : 1) && closes == 0, "connected: request head (and body, if any) queued, response reading starts");
			http_request_cancel(H);
			released(1, 0);
		}
	}
	REACHED();
}
