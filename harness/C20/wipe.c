/*
 * C20: zero-then-free.  free() is rebound (goto-instrument --replace-calls free:checked_free) to a stub that, for
 * the object under observation, asserts that an arbitrary byte of the WHOLE object is zero at the moment it is
 * returned to the allocator, then really frees it.  insecure_memzero goes through its real volatile function pointer.
 */
#include <stdint.h>
#include <stdlib.h>
#include <string.h>
#include "vh.h"
#include "stub_warnp.c"
static const void * watched; static int frees_of_watched, dirty_at_free;
void checked_free(void * p)
{
	if (p == NULL) return;
	if (p == watched || watched == (const void *)1) {
#if VH_NATIVE
		(void)0;
#else
		size_t n = __CPROVER_OBJECT_SIZE(p), i = nd_size();
		if (i < n && ((const uint8_t *)p)[i] != 0) dirty_at_free = 1;
#endif
		frees_of_watched++;
	}
#if VH_NATIVE
	free(p);
#else
	__CPROVER_deallocate(p);
#endif
}
#if WHICH == 1	/* expanded AES-NI key */
#include "crypto_aes_aesni.c"
void h_wipe(void)
{
	uint8_t key[32]; for (int i = 0; i < 32; i++) key[i] = nd_u8();
	void * k = crypto_aes_key_expand_aesni(key, nd_bool() ? 16 : 32);
	ASSUME(k != NULL);
	watched = k;
	crypto_aes_key_free_aesni(k);
	CHECK(frees_of_watched == 1, "the key object is released exactly once");
	CHECK(!dirty_at_free, "every byte of the expanded-key object (round keys, nr) is zero when it reaches free()");
	crypto_aes_key_free_aesni(NULL);
	REACHED();
}
#elif WHICH == 2	/* portable expanded key (OpenSSL AES_KEY) and AES-CTR stream object */
#include "crypto_aes.c"
#include "crypto_aesctr.c"
int AES_set_encrypt_key(const unsigned char * k, const int bits, AES_KEY * key) { (void)k; (void)bits; for (size_t i = 0; i < sizeof(AES_KEY); i++) ((uint8_t *)key)[i] = nd_u8(); return 0; }
void AES_encrypt(const unsigned char * in, unsigned char * out, const AES_KEY * key) { (void)in; (void)key; for (int i = 0; i < 16; i++) out[i] = nd_u8(); }
void h_wipe(void)
{
	uint8_t key[32], in[40], out[40];
	for (int i = 0; i < 32; i++) key[i] = nd_u8();
	for (int i = 0; i < 40; i++) in[i] = nd_u8();
	struct crypto_aes_key * k = crypto_aes_key_expand(key, nd_bool() ? 16 : 32);
	ASSUME(k != NULL);
	struct crypto_aesctr * s = crypto_aesctr_init(k, nd_u64());
	ASSUME(s != NULL);
	crypto_aesctr_stream(s, in, out, nd_size_le(40));	/* leaves key pointer, counter block and keystream block in the object */
	if (nd_bool()) crypto_aesctr_init2(s, NULL, nd_u64());	/* re-use */
	watched = s;
	crypto_aesctr_free(s);
	CHECK(frees_of_watched == 1 && !dirty_at_free, "AES-CTR stream object (key pointer, counter, cached keystream) is all-zero when freed");
	watched = k; frees_of_watched = 0;
	crypto_aes_key_free(k);
	CHECK(frees_of_watched == 1 && !dirty_at_free, "expanded AES key is all-zero when freed");
	REACHED();
}
#elif WHICH == 3	/* aws_readkeys: secret read, then the file turns out bad */
#include <stdio.h>
/* one symbolic key file: line 1 = "ACCESS_KEY_SECRET=<4 secret characters>\n", line 2 = arbitrary short line (bad name, duplicate
 * secret, missing '=', missing EOL) or an I/O error */
static uint8_t SEC[4], L2[24]; static size_t l2len; static int io_error, line, f_open, f_closed; static FILE * FP;
FILE * vh_fopen(const char * n, const char * m) { (void)n; (void)m; f_open++; FP = (FILE *)malloc(1); return FP; }
char * vh_fgets(char * buf, int size, FILE * f)
{
	(void)f; (void)size;
	if (line == 0) { memcpy(buf, "ACCESS_KEY_SECRET=", 18); memcpy(buf + 18, SEC, 4); buf[22] = '\n'; buf[23] = 0; line++; return buf; }
	if (line == 1) { line++; if (io_error) return NULL; memcpy(buf, L2, l2len); buf[l2len] = 0; return buf; }
	return NULL;
}
int vh_ferror(FILE * f) { (void)f; return io_error; }
int vh_fclose(FILE * f) { f_closed++; __CPROVER_deallocate(f); return 0; }
#define fopen vh_fopen
#define fgets vh_fgets
#define ferror vh_ferror
#define fclose vh_fclose
#include "aws_readkeys.c"
void h_wipe(void)
{
	char * id = NULL, * secret = NULL;
	/* the secret is a fixed non-zero pattern: with symbolic characters strlen()/strdup() get a symbolic length and the
	 * symbolic-size allocation exhausts memory; zeroing does not depend on the value */
	SEC[0] = 's'; SEC[1] = '3'; SEC[2] = 'c'; SEC[3] = 'r';
	/* what follows the secret line: a fixed menu of failing continuations (a fully symbolic second line made the query
	 * run out of memory); the secret itself stays symbolic */
	static const char * const MENU[6] = {"X=1\n", "ACCESS_KEY_SECRET=zz\n", "noequals\n", "ACCESS_KEY_ID=a", "=\n", "ACCESS_KEY_ID=a\n"};
	int m = SCEN;	/* one continuation per obligation: keeps every string constant for symex */
	io_error = (m == 6);
	if (m < 6) { l2len = strlen(MENU[m]); memcpy(L2, MENU[m], l2len); }
	watched = (const void *)1;	/* every heap object freed by the function is inspected: none may still hold bytes */
	int rc = aws_readkeys("f", &id, &secret);
	ASSUME(rc == -1);	/* the failing reads are the subject (success hands the secret to the caller) */
	CHECK(!dirty_at_free, "on every failure after the secret line was read, the heap copy of the secret is zeroed before free()");
	CHECK(f_closed == f_open, "file closed");
	REACHED();
}
#endif
