import importlib.util, os
MZ = ["util/insecure_memzero.c"]
def _load(pid):
    p = os.path.join(os.path.dirname(os.path.dirname(os.path.abspath(__file__))), pid, "spec.py")
    sp = importlib.util.spec_from_file_location("spec_" + pid + "_for_c20", p); m = importlib.util.module_from_spec(sp); sp.loader.exec_module(m); return m
def obligations(tier):
    T = tier == "thorough"
    to = 1800 if T else 280
    obs = []
    # contexts zero after *_Final / HMAC_*_Final: the C01 final-step obligations assert it for an arbitrary context byte
    for o in _load("C01").obligations(tier):
        if o["name"].endswith("-final-step") or "hmac" in o["name"] and "stream" in o["name"]:
            o = dict(o); o["harness"] = "../C01/" + o["harness"]; o["name"] = "ctx-zero-after-" + o["name"]
            o["claim"] = "every byte of the hash/HMAC context is zero after finalisation, from an arbitrary context / for every key and message [assertion 'context wiped' inside: " + o["claim"][:80] + "...]"
            obs.append(o)
    U = ["insecure_memzero_func.0:600"]
    obs.append(dict(name="aesni-key-zero-at-free", harness="wipe.c", entry="h_wipe", defs=["WHICH=1"], cpu=["X86_AESNI"], model_inc=["x86"], srcs=MZ, unwind=300, unwindset=U, replace=["free:checked_free"], timeout=to, replay="model",
                    claim="crypto_aes_key_free_aesni after expanding an arbitrary 128/256-bit key: all bytes of the key object are zero at free()", bounds="none", stubs=["free -> checking stub", "x86 intrinsics -> models"]))
    obs.append(dict(name="aes-key-and-aesctr-zero-at-free", harness="wipe.c", entry="h_wipe", defs=["WHICH=2"], cpu=[], srcs=MZ, unwind=300, unwindset=U + ["libcperciva_crypto_aesctr_stream#0?:5", "crypto_aesctr_stream_cipherblock_use#0?:18"], replace=["free:checked_free"], timeout=to, replay="model",
                    claim="crypto_aesctr_free after init/stream/(init2) and crypto_aes_key_free (portable AES_KEY): all bytes zero at free()", bounds="stream call <= 40 bytes", stubs=["free -> checking stub", "OpenSSL AES -> nondeterministic"]))
    # aws_readkeys: the heap copy of the secret is zeroed before release on every failure path (harness shared with C15:
    # scripted stdio, lines of arbitrary bytes; an earlier harness over symbolic-length lines ran out of memory)
    for l0, l1 in [(20, 16), (20, 20)] + ([(24, 5)] if tier == "thorough" else []):
        obs.append(dict(name="aws-readkeys-secret-zero-at-free-lines-%d-%d" % (l0, l1), harness="../C15/rdkeys.c", entry="h_readkeys", defs=["L0=%d" % l0, "L1=%d" % l1, "NLINES=2"], cpu=[], srcs=MZ, unwind=44, unwindset=["insecure_memzero_func.0:50"], timeout=to, flags=["--memory-leak-check"],
                        claim="aws_readkeys on every 2-line file with lines of %d and %d arbitrary bytes: whenever the call fails after a secret line was read (unknown name, duplicate, no separator, missing EOL, missing id, close failure), the heap copy of the secret is all-zero when it is released, exactly once; nothing leaks" % (l0, l1),
                        bounds="2 lines of %d and %d bytes" % (l0, l1), stubs=["fopen/fgets/ferror/fclose -> scripted file", "strdup -> exact-size copy", "free -> checking wrapper", "strcspn -> C model"]))
    for fl in [2, 5]:
        obs.append(dict(name="readpass-file-buffer-wiped-len%d" % fl, harness="../C15/rdpass.c", entry="h_readpass", defs=["FL=%d" % fl], cpu=[], unwind=fl + 4, timeout=to, flags=["--memory-leak-check"],
                        claim="readpass_file: the whole 2048-byte stack buffer that held the passphrase is handed to insecure_memzero exactly once, after its last use, on every path (success, open/read/close failure, second line)", bounds="file length %d" % fl,
                        stubs=["stdio -> scripted file", "insecure_memzero -> recording stub (its own body: the other C20 obligations)"]))
    # Diffie-Hellman: BIGNUMs derived from the private exponent / blinding value are released with BN_clear_free (C10 model, taint bits)
    for o in _load("C10").obligations(tier):
        if o["name"].startswith("dh-modexp-") and ("ok-resultlen255" in o["name"] or "fail-at-call" in o["name"]):
            o = dict(o); o["harness"] = "../C10/" + o["harness"]; o["name"] = "dh-secrets-cleared-" + o["name"][10:]
            obs.append(o)
    return obs
TRUSTED = ["CBMC 6.11 C semantics (volatile function pointer of insecure_memzero resolved by CBMC)", "cadical"]
ASSUMPTIONS = ["compiler elision of the wipes is outside a source-level claim", "Diffie-Hellman: clearing is decided at the level of the BN API (BN_clear_free vs BN_free on tainted values); what BN_clear_free does inside OpenSSL is outside /repo"]
EXPLANATION = ""
