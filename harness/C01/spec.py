SW = []
MZ = ["util/insecure_memzero.c"]   # software configuration: no CPUSUPPORT_* defined

def obligations(tier):
    T = tier == "thorough"
    obs = []
    for alg, nm in ((256, "sha256"), (1, "sha1"), (5, "md5")):
        obs.append(dict(name="%s-transform-equals-standard" % nm, harness="transform.c", entry="h_transform", defs=["ALG=%d" % alg], cpu=SW, srcs=MZ,
                        unwind=100, unwindset=["insecure_memzero_func.0:400"], flags=["--no-standard-checks"],
                        backends=["z3tactic", "cadical"], timeout=900 if T else 240,
                        claim="real %s compression function == FIPS 180-4 / RFC 1321 reference for every (state, block): all 2^(32n+512) inputs" % nm,
                        bounds="none (fixed-size function); loops fully unrolled"))
        obs.append(dict(name="%s-transform-memory-safe" % nm, harness="transform.c", entry="h_transform", defs=["ALG=%d" % alg, "SAFETY_ONLY"], cpu=SW, srcs=MZ,
                        unwind=100, unwindset=["insecure_memzero_func.0:400"], flags=["--no-assertions"] if False else [],
                        backends=["cadical"], timeout=900 if T else 240, witness=True,
                        claim="no out-of-bounds access / shift / overflow UB in the %s compression function" % nm, bounds="none"))
        obs.append(dict(name="%s-init-iv" % nm, harness="transform.c", entry="h_init", defs=["ALG=%d" % alg], cpu=SW, unwind=100,
                        claim="*_Init sets the standard initial hash value and a zero bit count", bounds="none"))
    ml = 130 if T else 70
    for alg, nm, tr, upd in ((256, "sha256", "SHA256_Transform", "SHA256_Update_internal"), (1, "sha1", "SHA1_Transform", "libcperciva_SHA1_Update"), (5, "md5", "MD5_Transform", "libcperciva_MD5_Update")):
        for step, what in (("update", "one Update call from an arbitrary context (any state, any 64-bit bit count, any pending bytes) absorbs pending||in: right number of compression calls, every block byte, chaining, new count (with carry), new pending bytes"),
                           ("final", "Final from an arbitrary context: 1 or 2 padding blocks = pending||0x80||0*||len64 (length taken before padding), digest = encoding of last state, every context byte zero afterwards"),
                           ("buf", "one-shot *_Buf == Merkle-Damgard over the padded message from the standard IV")):
            splits = [None]
            for sp in splits:
                obs.append(dict(name="%s-%s-step%s" % (nm, step, "" if sp is None else "-case%d" % sp), harness="md_steps.c", entry="h_" + step,
                                defs=["ALG=%d" % alg, "MAXLEN=%d" % ml] + ([] if sp is None else ["SPLIT=%d" % sp]), cpu=SW, srcs=MZ,
                                replace=["%s:uf_compress" % tr], unwind=max(ml, 66) + 2,
                                unwindset=["insecure_memzero_func.0:400", "%s#0:%d" % (upd, ml // 64 + 2)],
                                backends=["cadical"], timeout=1800 if T else 280,
                                claim=what + ("" if sp is None else " [case %d of the split on pending/message length; the cases are exhaustive]" % sp),
                                bounds="len <= %d bytes per call; compression function uninterpreted (holds for every function)" % ml,
                                stubs=["%s -> uf_compress (logs (state, block), returns fresh nondet state)" % tr]))
    mk = 84 if T else 70
    for alg, nm, rep in ((256, "sha256", ["libcperciva_SHA256_Init:ah_init", "SHA256_Update_internal:ah_update", "SHA256_Final_internal:ah_final"]),
                         (1, "sha1", ["libcperciva_SHA1_Init:ah_init", "libcperciva_SHA1_Update:ah_update", "libcperciva_SHA1_Final:ah_final"]),
                         (5, "md5", ["libcperciva_MD5_Init:ah_init", "libcperciva_MD5_Update:ah_update", "libcperciva_MD5_Final:ah_final"])):
        k = min(mk, {256: 96, 1: 84, 5: 80}[alg])
        for ent, what in (("h_hmac_stream", "HMAC Init/Update/Update/Final"), ("h_hmac_buf", "one-shot HMAC_*_Buf")):
            obs.append(dict(name="hmac-%s-%s-rfc2104" % (nm, ent[7:]), harness="hmac.c", entry=ent, defs=["ALG=%d" % alg, "MAXK=%d" % k, "MAXM=6"], cpu=SW, srcs=MZ,
                            replace=rep, unwind=110, unwindset=["insecure_memzero_func.0:400", "HMAC_SHA256_Init_internal#0:66", "HMAC_SHA256_Init_internal#1:66",
                                                               "libcperciva_HMAC_SHA1_Init#0:66", "libcperciva_HMAC_SHA1_Init#1:66", "libcperciva_HMAC_MD5_Init#0:66", "libcperciva_HMAC_MD5_Init#1:66"][0:1] +
                                      ({256: ["HMAC_SHA256_Init_internal#0:66", "HMAC_SHA256_Init_internal#1:66"], 1: ["libcperciva_HMAC_SHA1_Init#0:66", "libcperciva_HMAC_SHA1_Init#1:66"], 5: ["libcperciva_HMAC_MD5_Init#0:66", "libcperciva_HMAC_MD5_Init#1:66"]}[alg]),
                            backends=["cadical"], timeout=1800 if T else 280,
                            claim=what + " == H((K' ^ opad) || H((K' ^ ipad) || m)) with K' = H(K) iff Klen > 64, over an abstract stream hash; context wiped after Final",
                            bounds="Klen <= %d (both sides of 64), message <= 6 bytes in two arbitrary pieces (message-length dependence is L1's)" % k,
                            stubs=["hash Init/Update/Final -> stream-accumulating abstract hash stored inside the real context object"]))
    mc, mdk = (4, 100) if T else (3, 70)
    obs.append(dict(name="pbkdf2-sha256-rfc8018", harness="pbkdf2.c", entry="h_pbkdf2", defs=["MAXC=%d" % mc, "MAXDK=%d" % mdk], cpu=SW, srcs=MZ,
                    replace=["HMAC_SHA256_Init_internal:ap_init", "HMAC_SHA256_Update_internal:ap_update", "HMAC_SHA256_Final_internal:ap_final"],
                    unwind=mdk + 12, unwindset=["insecure_memzero_func.0:400", "PBKDF2_SHA256#0:%d" % ((mdk + 31) // 32 + 1), "PBKDF2_SHA256#1:%d" % (mc + 1)],
                    backends=["cadical"], timeout=1800 if T else 280,
                    claim="PBKDF2_SHA256 == RFC 8018 5.2: T_i = U_1^...^U_c, U_1 = PRF(P, S||INT(i)), U_j = PRF(P, U_{j-1}); exactly dkLen bytes written; over an abstract PRF",
                    bounds="c <= %d, dkLen <= %d (incl. non-multiples of 32), passwdlen <= 8, saltlen <= 8" % (mc, mdk),
                    stubs=["HMAC_SHA256_{Init,Update,Final}_internal -> abstract PRF stored inside the real HMAC context object"]))
    cl = 12 if T else 7
    crc = [("h_crc_step", "step", cl, [], "CRC32C_Update from an arbitrary 32-bit state, buffer alignment 0..7 == reference LFSR (slice form per 4-byte group + serial tail), so every partition of a stream gives the same value"),
           ("h_crc_tables", "tables", 4, [], "tables built by the real init(): T_k[i] == 8(k+1) LFSR steps of i, for all 256 i"),
           ("h_crc_ref_algebra", "ref-algebra", 4, [], "reference algebra: serial byte step = shift of state^byte; 8- and 32-step shift maps are GF(2)-linear; zero low bytes shift without feedback (=> slice form == serial form)"),
           ("h_crc_meaning", "meaning", 1, [], "Init/Update/Final: the bit string 1 || data || crc (LSB first) leaves remainder 0 under plain GF(2) long division by x^32+0x1EDC6F41"),
           ("h_crc_lemmas", "lemmas", 4, [], "Init state = state of the single bit 1; Final = LE32(state); for every state s the stream followed by LE32(s) has state 0; reflected LFSR == bit-reversed polynomial remainder (one-byte step commutes)")]
    # thorough run 3: "meaning" at 4 bytes and the one-query slice==serial miter (ALGEBRA_FULL) got no verdict in 2400 s on cadical/kissat (parity-hard);
    # the lemma chain above is what decides them, so they are not registered
    for ent, nm_, ml_, xd, what in crc:
        obs.append(dict(name="crc32c-" + nm_, harness="crc.c", entry=ent, defs=["MAXLEN=%d" % ml_] + xd, cpu=SW, unwind=258,
                        unwindset=["CRC32C_Update#0:%d" % (ml_ // 4 + 1), "CRC32C_Update#1:4"],
                        backends=["cadical", "kissat"] if T else ["cadical"], timeout=2400 if T else 280, claim=what, bounds="len <= %d bytes (tables/algebra/lemmas: no bound)" % ml_,
                        stubs=[]))
    obs.append(dict(name="ch-maj-f-g-identities", harness="transform.c", entry="h_identities", defs=["ALG=256"], cpu=SW, unwind=10,
                    claim="bitwise forms of Ch/Maj/F/G used by code and reference equal the textbook definitions", bounds="none (96-bit query)"))
    return obs

SELFTESTS = [dict(name="ref-hash-vs-hashlib", script="refs/selftest_hash.py", what="refs/ref_hash.h (compression functions + padding) agree with Python hashlib on 148 messages incl. every length 0..139")]
TRUSTED = ["CBMC 6.11 C semantics", "z3 5.1 (tactic pipeline) / cadical", "refs/ref_hash.h reference implementations (validated natively against Python hashlib on every run)"]
ASSUMPTIONS = []
EXPLANATION = ""
