/* C01 L0: the real compression functions == FIPS 180-4 / RFC 1321 references, for every (state, block). */
#include <stdint.h>
#include <string.h>
#include "vh.h"
#include "ref_hash.h"
#if ALG == 256
#include "sha256.c"
#define NS 8
#define REAL(st, blk) do { uint32_t W_[64], S_[8]; SHA256_Transform(st, blk, W_, S_); } while (0)
#define REFC ref_sha256_compress
#elif ALG == 1
#include "sha1.c"
#define NS 5
#define REAL(st, blk) SHA1_Transform(st, blk)
#define REFC ref_sha1_compress
#elif ALG == 5
#include "md5.c"
#define NS 4
#define REAL(st, blk) MD5_Transform(st, blk)
#define REFC ref_md5_compress
#endif

void h_transform(void)
{
	uint32_t s1[NS], s2[NS];
	uint8_t blk[64];
	for (int i = 0; i < NS; i++) s1[i] = s2[i] = nd_u32();
	for (int i = 0; i < 64; i++) blk[i] = nd_u8();
	REAL(s1, blk);
#ifndef SAFETY_ONLY
	REFC(s2, blk);
	for (int i = 0; i < NS; i++) CHECK(s1[i] == s2[i], "compression function equals the standard");
#endif
	REACHED();
}

/* The bitwise forms used by code and reference equal the textbook definitions (FIPS 180-4 4.1.1/4.1.2, RFC 1321 3.4). */
void h_identities(void)
{
	uint32_t x = nd_u32(), y = nd_u32(), z = nd_u32();
	CHECK(((x & y) ^ (~x & z)) == ((x & (y ^ z)) ^ z), "Ch identity");
	CHECK(((x & y) ^ (x & z) ^ (y & z)) == ((x & (y | z)) | (y & z)), "Maj identity");
	CHECK(((x & y) | (~x & z)) == ((x & (y ^ z)) ^ z), "MD5 F identity");
	CHECK(((x & z) | (y & ~z)) == ((z & (x ^ y)) ^ y), "MD5 G identity");
	REACHED();
}

/* Initial values set by *_Init equal the standard's. */
void h_init(void)
{
#if ALG == 256
	SHA256_CTX c; memset(&c, 0xa5, sizeof(c)); SHA256_Init(&c);
	for (int i = 0; i < 8; i++) CHECK(c.state[i] == REF_IV256[i], "IV");
	CHECK(c.count == 0, "count zero");
#elif ALG == 1
	SHA1_CTX c; memset(&c, 0xa5, sizeof(c)); SHA1_Init(&c);
	for (int i = 0; i < 5; i++) CHECK(c.state[i] == REF_IV1[i], "IV");
	CHECK(c.count[0] == 0 && c.count[1] == 0, "count zero");
#else
	MD5_CTX c; memset(&c, 0xa5, sizeof(c)); MD5_Init(&c);
	for (int i = 0; i < 4; i++) CHECK(c.state[i] == REF_IV5[i], "IV");
	CHECK(c.count[0] == 0 && c.count[1] == 0, "count zero");
#endif
	REACHED();
}
