/*
 * C01 L2: HMAC-{SHA256,SHA1,MD5} == RFC 2104 over an ABSTRACT hash.
 * The hash's Init/Update/Final are rebound (goto-instrument --replace-calls) to
 * a stream-accumulating stub that keeps the absorbed bytes INSIDE the real
 * context object (so struct copies behave), and whose Final returns a fresh
 * nondeterministic digest and logs (stream, digest).  That the real
 * Init/Update/Final implement exactly such a stream hash is L1 (md_steps.c).
 */
#include <stdint.h>
#include <stdlib.h>
#include <string.h>
#include "vh.h"
#if ALG == 256
#include "sha256.c"
typedef SHA256_CTX CTX; typedef HMAC_SHA256_CTX HCTX;
#define NS 8
#define H_INIT HMAC_SHA256_Init
#define H_UPDATE HMAC_SHA256_Update
#define H_FINAL HMAC_SHA256_Final
#define H_BUF HMAC_SHA256_Buf
#elif ALG == 1
#include "sha1.c"
typedef SHA1_CTX CTX; typedef HMAC_SHA1_CTX HCTX;
#define NS 5
#define H_INIT HMAC_SHA1_Init
#define H_UPDATE HMAC_SHA1_Update
#define H_FINAL HMAC_SHA1_Final
#define H_BUF HMAC_SHA1_Buf
#else
#include "md5.c"
typedef MD5_CTX CTX; typedef HMAC_MD5_CTX HCTX;
#define NS 4
#define H_INIT HMAC_MD5_Init
#define H_UPDATE HMAC_MD5_Update
#define H_FINAL HMAC_MD5_Final
#define H_BUF HMAC_MD5_Buf
#endif
#define DLEN (4 * NS)
#define CAP (sizeof(CTX) - 8)	/* stream bytes storable in a context */
#ifndef MAXK
#define MAXK 70
#endif
#ifndef MAXM
#define MAXM 6
#endif

/* layout inside a context object (all three CTX structs are padding-free): bytes [0,8) stream length, [8, sizeof) stream bytes */
#define RAW(c) ((uint8_t *)(c))
static uint64_t getlen(CTX * c) { uint64_t l; memcpy(&l, RAW(c), 8); return l; }
static void setlen(CTX * c, uint64_t l) { memcpy(RAW(c), &l, 8); }
#define NFIN 3
/* one observation per finalisation, at a position chosen before the code runs (universal generalisation) */
static size_t nfin, pstar[NFIN];
static uint64_t F_len[NFIN];
static uint8_t F_obs[NFIN], F_out[NFIN][DLEN];
static int overflowed;
static void pick_observation(void) { for (int f = 0; f < NFIN; f++) { pstar[f] = nd_size(); ASSUME(pstar[f] < CAP); } }

void ah_init(CTX * c) { setlen(c, 0); }
static void ah_absorb(CTX * c, const uint8_t * in, size_t len)
{
	uint64_t l = getlen(c);
	if (l + len > CAP) { overflowed = 1; return; }
	memcpy(RAW(c) + 8 + l, in, len);
	setlen(c, l + len);
}
static void ah_finish(uint8_t * digest, CTX * c)
{
	CHECK(nfin < NFIN, "no more hash finalisations than HMAC needs");
	if (nfin >= NFIN) return;
	F_len[nfin] = getlen(c);
	F_obs[nfin] = RAW(c)[8 + pstar[nfin]];
	for (size_t i = 0; i < DLEN; i++) digest[i] = F_out[nfin][i] = nd_u8();
	nfin++;
}
#if ALG == 256
void ah_update(CTX * c, const void * in, size_t len, uint32_t * tmp) { (void)tmp; ah_absorb(c, in, len); }
void ah_final(uint8_t * d, CTX * c, uint32_t * tmp) { (void)tmp; ah_finish(d, c); }
#else
void ah_update(CTX * c, const void * in, size_t len) { ah_absorb(c, in, len); }
void ah_final(uint8_t * d, CTX * c) { ah_finish(d, c); memset(c, 0, sizeof(*c)); }
#endif

static void expect(const uint8_t * K, size_t Klen, const uint8_t * m, size_t mlen, const uint8_t * digest)
{
	CHECK(!overflowed, "stub capacity (harness bound) not exceeded");
	size_t base = Klen > 64 ? 1 : 0;
	CHECK(nfin == base + 2, "hash finalisations: [key], inner, outer");
	uint8_t Kp[64];
	memset(Kp, 0, 64);
	if (Klen > 64) {
		CHECK(F_len[0] == Klen, "long key is hashed: length");
		size_t q = pstar[0];
		if (q < Klen) CHECK(F_obs[0] == K[q], "long key is hashed: content");
		for (size_t i = 0; i < DLEN; i++) Kp[i] = F_out[0][i];
	} else {
		for (size_t i = 0; i < 64; i++) if (i < Klen) Kp[i] = K[i];
	}
	/* inner: H((K' xor ipad) || m) */
	CHECK(F_len[base] == 64 + mlen, "inner stream length");
	size_t a = pstar[base];
	if (a < 64 + mlen) CHECK(F_obs[base] == (a < 64 ? (uint8_t)(Kp[a] ^ 0x36) : m[a - 64]), "inner stream = (K' ^ ipad) || message");
	/* outer: H((K' xor opad) || inner) */
	CHECK(F_len[base + 1] == 64 + DLEN, "outer stream length");
	size_t b = pstar[base + 1];
	if (b < 64 + DLEN) CHECK(F_obs[base + 1] == (b < 64 ? (uint8_t)(Kp[b] ^ 0x5c) : F_out[base][b - 64]), "outer stream = (K' ^ opad) || inner digest");
	size_t k = nd_size(); ASSUME(k < DLEN);
	CHECK(digest[k] == F_out[base + 1][k], "HMAC output is the outer digest");
}

void h_hmac_stream(void)
{
	HCTX ctx; uint8_t K[MAXK], m[MAXM], digest[DLEN];
	size_t Klen = nd_size_le(MAXK), mlen = nd_size_le(MAXM), cut = nd_size();
	ASSUME(cut <= mlen);
	ND_BYTES_MAX(K, Klen, MAXK);
	ND_BYTES_MAX(m, mlen, MAXM);
	pick_observation();
	H_INIT(&ctx, K, Klen);
	H_UPDATE(&ctx, m, cut);
	H_UPDATE(&ctx, m + cut, mlen - cut);
	H_FINAL(digest, &ctx);
	expect(K, Klen, m, mlen, digest);
	size_t o = nd_size(); ASSUME(o < sizeof(HCTX));
	CHECK(((uint8_t *)&ctx)[o] == 0, "HMAC context wiped after Final (C20)");
	REACHED();
}

void h_hmac_buf(void)
{
	uint8_t K[MAXK], m[MAXM], digest[DLEN];
	size_t Klen = nd_size_le(MAXK), mlen = nd_size_le(MAXM);
	ND_BYTES_MAX(K, Klen, MAXK);
	ND_BYTES_MAX(m, mlen, MAXM);
	pick_observation();
	H_BUF(K, Klen, m, mlen, digest);
	expect(K, Klen, m, mlen, digest);
	REACHED();
}
