/*
 * C01 L1: buffering and padding of SHA-256 / SHA-1 / MD5 with the compression
 * function replaced by an uninterpreted function (goto-instrument
 * --replace-calls <X>_Transform:uf_compress): every call is logged and returns
 * fresh nondeterministic state.  Inductive steps from an ARBITRARY context:
 *   h_update : one Update call == absorb into the virtual stream pending||in
 *   h_final  : Final == pad(pending, bitcount) + digest encoding + ctx wiped
 *   h_buf    : one-shot == Merkle-Damgard of the padded message from the IV
 */
#include <stdint.h>
#include <stdlib.h>
#include <string.h>
#include "vh.h"
#include "ref_hash.h"
#if ALG == 256
#include "sha256.c"
typedef SHA256_CTX CTX;
#define NS 8
#define BE 1
#define GETBITS(c) ((c)->count)
#define SETBITS(c, v) ((c)->count = (v))
#define UPDATE SHA256_Update
#define FINAL SHA256_Final
#define BUF SHA256_Buf
#define IV REF_IV256
#elif ALG == 1
#include "sha1.c"
typedef SHA1_CTX CTX;
#define NS 5
#define BE 1
#define GETBITS(c) (((uint64_t)(c)->count[0] << 32) | (c)->count[1])
#define SETBITS(c, v) ((c)->count[0] = (uint32_t)((v) >> 32), (c)->count[1] = (uint32_t)(v))
#define UPDATE SHA1_Update
#define FINAL SHA1_Final
#define BUF SHA1_Buf
#define IV REF_IV1
#else
#include "md5.c"
typedef MD5_CTX CTX;
#define NS 4
#define BE 0
#define GETBITS(c) (((uint64_t)(c)->count[1] << 32) | (c)->count[0])
#define SETBITS(c, v) ((c)->count[1] = (uint32_t)((v) >> 32), (c)->count[0] = (uint32_t)(v))
#define UPDATE MD5_Update
#define FINAL MD5_Final
#define BUF MD5_Buf
#define IV REF_IV5
#endif
#define DLEN (4 * NS)
#ifndef MAXLEN
#define MAXLEN 70
#endif
#define MAXCALLS ((MAXLEN + 8) / 64 + 2)

/*
 * The log keeps only ONE observation, at an index (jstar, istar, wstar) chosen
 * nondeterministically BEFORE the code runs: block byte istar and state word
 * wstar of call jstar, plus word wstar of the output of call jstar-1.  Since
 * the index is arbitrary this is universal generalisation over all
 * (call, byte, word) triples, and it keeps symbolic-index array writes out of
 * the formula (a full 64-byte-per-call log made the queries 3-10x slower).
 */
static size_t ncalls, jstar, istar, wstar;
static uint8_t obs_byte;
static uint32_t obs_in_w, obs_prevout_w, last_out[NS];
static void pick_observation(void)
{
	jstar = nd_size(); istar = nd_size(); wstar = nd_size();
	ASSUME(jstar < MAXCALLS && istar < 64 && wstar < NS);
}
static void uf_log(uint32_t * state, const uint8_t * block)
{
	if (ncalls == jstar) { obs_byte = block[istar]; obs_in_w = state[wstar]; }
	for (int i = 0; i < NS; i++) state[i] = last_out[i] = nd_u32();
	if (ncalls + 1 == jstar) obs_prevout_w = state[wstar];
	ncalls++;
}
#if ALG == 256
void uf_compress(uint32_t state[8], const uint8_t block[64], uint32_t W[64], uint32_t S[8]) { (void)W; (void)S; uf_log(state, block); }
#else
void uf_compress(uint32_t * state, const uint8_t block[64]) { uf_log(state, block); }
#endif

static uint8_t encbyte(const uint32_t * st, size_t k) /* byte k of the digest encoding of st */
{
	uint32_t w = st[k / 4];
	return BE ? (uint8_t)(w >> (8 * (3 - k % 4))) : (uint8_t)(w >> (8 * (k % 4)));
}

static void arbitrary_ctx(CTX * ctx, uint32_t * st0, uint64_t * c0, uint8_t * oldbuf)
{
	for (int i = 0; i < NS; i++) st0[i] = ctx->state[i] = nd_u32();
	*c0 = nd_u64();
	ASSUME((*c0 & 7) == 0);	/* invariant: whole bytes absorbed */
	SETBITS(ctx, *c0);
	for (int i = 0; i < 64; i++) oldbuf[i] = ctx->buf[i] = nd_u8();
}

void h_update(void)
{
	CTX ctx; uint32_t st0[NS]; uint64_t c0; uint8_t oldbuf[64];
	arbitrary_ctx(&ctx, st0, &c0, oldbuf);
	size_t len = nd_size_le(MAXLEN);
	ASSUME(c0 <= UINT64_MAX - 8 * (uint64_t)MAXLEN);	/* FIPS domain: total < 2^64 bits */
	uint8_t in[MAXLEN];	/* fixed-size object: a symbolic-size malloc sends the query into array-theory post-processing (measured: no answer in 300 s vs 42 s) */
	ND_BYTES_MAX(in, len, MAXLEN);
	pick_observation();
	UPDATE(&ctx, in, len);
	size_t r0 = (size_t)((c0 >> 3) & 0x3f);
	size_t nb = (r0 + len) / 64;
	CHECK(ncalls == nb, "number of compression calls");
	CHECK(GETBITS(&ctx) == c0 + 8 * (uint64_t)len, "bit count advanced by 8*len (with carry)");
	size_t j = jstar, i = istar, w = wstar;
	size_t idx = 64 * j + i;
	if (j < nb) {
		CHECK(obs_byte == (idx < r0 ? oldbuf[idx] : in[idx - r0]), "block byte equals byte of pending||in");
		CHECK(obs_in_w == (j == 0 ? st0[w] : obs_prevout_w), "chaining");
	}
	if (nb > 0) CHECK(ctx.state[w] == last_out[w], "state is the last output");
	else CHECK(ctx.state[w] == st0[w], "state untouched");
	size_t k = nd_size(); ASSUME(k < (r0 + len) % 64);
	size_t idk = 64 * nb + k;
	CHECK(ctx.buf[k] == (idk < r0 ? oldbuf[idk] : in[idk - r0]), "pending bytes are the unprocessed tail");
	REACHED();
}

void h_final(void)
{
	CTX ctx; uint32_t st0[NS]; uint64_t c0; uint8_t oldbuf[64]; uint8_t digest[DLEN];
	arbitrary_ctx(&ctx, st0, &c0, oldbuf);
#ifdef SPLIT	/* case split (each case is its own obligation; together they cover every pending length) */
	ASSUME(SPLIT == 0 ? ((c0 >> 3) & 0x3f) < 56 : ((c0 >> 3) & 0x3f) >= 56);
#endif
	pick_observation();
	FINAL(digest, &ctx);
	size_t r0 = (size_t)((c0 >> 3) & 0x3f);
	size_t nb = r0 < 56 ? 1 : 2;
	CHECK(ncalls == nb, "one padding block if pending < 56 bytes, else two");
	size_t j = jstar, i = istar, w = wstar;
	ASSUME(j < nb);
	size_t idx = 64 * j + i, lenpos = 64 * nb - 8;
	uint8_t expect;
	if (idx < r0) expect = oldbuf[idx];
	else if (idx == r0) expect = 0x80;
	else if (idx < lenpos) expect = 0;
	else expect = BE ? (uint8_t)(c0 >> (8 * (7 - (idx - lenpos)))) : (uint8_t)(c0 >> (8 * (idx - lenpos)));
	CHECK(obs_byte == expect, "padded block: pending, 0x80, zeros, 64-bit bit count of the data (taken before padding)");
	CHECK(obs_in_w == (j == 0 ? st0[w] : obs_prevout_w), "chaining");
	size_t k = nd_size(); ASSUME(k < DLEN);
	CHECK(digest[k] == encbyte(last_out, k), "digest is the encoding of the final state");
	size_t o = nd_size(); ASSUME(o < sizeof(CTX));
	CHECK(((uint8_t *)&ctx)[o] == 0, "context wiped after Final (C20)");
	REACHED();
}

void h_buf(void)
{
	uint8_t digest[DLEN];
	size_t len = nd_size_le(MAXLEN);
	uint8_t in[MAXLEN];	/* fixed-size object: a symbolic-size malloc sends the query into array-theory post-processing (measured: no answer in 300 s vs 42 s) */
#ifdef SPLIT
	ASSUME(SPLIT == 0 ? len < 56 : SPLIT == 1 ? (len >= 56 && len < 64) : len >= 64);
#endif
	ND_BYTES_MAX(in, len, MAXLEN);
	pick_observation();
	BUF(in, len, digest);
	size_t nb = (len + 8) / 64 + 1;
	CHECK(ncalls == nb, "number of blocks of the padded message");
	size_t j = jstar, i = istar, w = wstar;
	if (j < nb) {
		CHECK(obs_byte == ref_md_padbyte(in, len, 64 * j + i, BE), "block byte equals padded message byte");
		CHECK(obs_in_w == (j == 0 ? IV[w] : obs_prevout_w), "chaining from the standard IV");
	}
	size_t k = nd_size(); ASSUME(k < DLEN);
	CHECK(digest[k] == encbyte(last_out, k), "digest is the encoding of the final state");
	REACHED();
}
