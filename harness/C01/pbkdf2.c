/*
 * C01 L3: PBKDF2_SHA256 == RFC 8018 5.2 over an ABSTRACT PRF.
 * HMAC_SHA256_{Init,Update,Final}_internal are rebound to a stub that keeps
 * (key, absorbed data) inside the real HMAC_SHA256_CTX object (so the code's
 * memcpy of precomputed contexts is exercised) and whose Final returns a fresh
 * nondeterministic 32-byte value and logs what it was applied to.  That the
 * real functions implement HMAC is L2 (hmac.c).
 */
#include <stdint.h>
#include <stdlib.h>
#include <string.h>
#include "vh.h"
#include "sha256.c"
#ifndef MAXC
#define MAXC 3
#endif
#ifndef MAXDK
#define MAXDK 70
#endif
#define MAXP 8
#define MAXS 8
#define NB ((MAXDK + 31) / 32)
#define NFIN (NB * MAXC)
/* typed storage inside the context (byte-level overlays of the uint32 fields made the query 10x larger):
 * key -> octx.buf / octx.count, absorbed data -> ictx.buf / ictx.count */
#define KCAP 64
#define DCAP 64
/*
 * Observation: PRF evaluation number fstar, key byte kstar, data byte pstar -- all chosen before the code
 * runs (universal generalisation).  The PRF outputs F_out[][] are drawn up front and only READ by the stub:
 * writes at a symbolic evaluation index made symex 20x larger.
 */
static size_t nfin, fstar, kstar, pstar;
static uint64_t obs_klen, obs_dlen;
static uint8_t obs_k, obs_d, F_out[NFIN][32];
static int overflowed;

void ap_init(HMAC_SHA256_CTX * c, const void * K, size_t Klen, uint32_t * t, uint8_t * pad, uint8_t * kh)
{
	(void)t; (void)pad; (void)kh;
	if (Klen > KCAP) { overflowed = 1; return; }
	c->octx.count = Klen; c->ictx.count = 0;
	memcpy(c->octx.buf, K, Klen);
}
void ap_update(HMAC_SHA256_CTX * c, const void * in, size_t len, uint32_t * t)
{
	(void)t;
	uint64_t l = c->ictx.count;
	if (l + len > DCAP) { overflowed = 1; return; }
	memcpy(&c->ictx.buf[l], in, len);
	c->ictx.count = l + len;
}
void ap_final(uint8_t * digest, HMAC_SHA256_CTX * c, uint32_t * t, uint8_t * ih)
{
	(void)t; (void)ih;
	CHECK(nfin < NFIN, "no more PRF evaluations than blocks x iterations");
	if (nfin >= NFIN) return;
	if (nfin == fstar) {
		obs_klen = c->octx.count; obs_dlen = c->ictx.count;
		obs_k = c->octx.buf[kstar]; obs_d = c->ictx.buf[pstar];
	}
	for (int i = 0; i < 32; i++) digest[i] = F_out[nfin][i];
	nfin++;
}

void h_pbkdf2(void)
{
	uint8_t P[MAXP], S[MAXS], buf[MAXDK + 8], buf0[MAXDK + 8];
	size_t plen = nd_size_le(MAXP), slen = nd_size_le(MAXS), dk = nd_size_le(MAXDK);
	uint64_t c = nd_u64();
	ASSUME(c >= 1 && c <= MAXC);
	ND_BYTES_MAX(P, plen, MAXP); ND_BYTES_MAX(S, slen, MAXS);
	for (size_t i = 0; i < MAXDK + 8; i++) buf0[i] = buf[i] = nd_u8();
	for (size_t f = 0; f < NFIN; f++) for (size_t q = 0; q < 32; q++) F_out[f][q] = nd_u8();
	fstar = nd_size(); kstar = nd_size(); pstar = nd_size(); ASSUME(fstar < NFIN && kstar < KCAP && pstar < DCAP);
	PBKDF2_SHA256(P, plen, S, slen, c, buf, dk);
	CHECK(!overflowed, "stub capacity (harness bound) not exceeded");
	size_t nb = (dk + 31) / 32;
	CHECK(nfin == nb * c, "PRF evaluations = blocks x iterations");
	/* arbitrary block i (0-based) and iteration j (1-based) */
	size_t i = nd_size(), j = nd_size();
	ASSUME(i < nb && j >= 1 && j <= c);
	size_t k = i * (size_t)c + (j - 1);
	ASSUME(k == fstar);	/* fstar is arbitrary, so (i, j) still ranges over every block and iteration */
	CHECK(obs_klen == plen, "PRF keyed with the password: length");
	if (kstar < plen) CHECK(obs_k == P[kstar], "PRF keyed with the password: content");
	if (j == 1) {
		CHECK(obs_dlen == slen + 4, "U_1 input length = saltlen + 4");
		uint32_t idx = (uint32_t)(i + 1);
		if (pstar < slen + 4)
			CHECK(obs_d == (pstar < slen ? S[pstar] : (uint8_t)(idx >> (8 * (3 - (pstar - slen))))), "U_1 = PRF(P, S || INT_BE32(i)) with i counted from 1");
	} else {
		CHECK(obs_dlen == 32, "U_j input length");
		if (pstar < 32) CHECK(obs_d == F_out[k - 1][pstar], "U_j = PRF(P, U_{j-1})");
	}
	/* output block i, byte b: XOR of U_1..U_c, exactly dkLen bytes written */
	size_t b = nd_size(); ASSUME(b < 32);
	uint8_t x = 0;
	for (size_t jj = 0; jj < MAXC; jj++) if (jj < c) x ^= F_out[(i * (size_t)c + jj) < NFIN ? (i * (size_t)c + jj) : 0][b];
	if (32 * i + b < dk) CHECK(buf[32 * i + b] == x, "T_i = U_1 ^ ... ^ U_c copied to the output (last block truncated)");
	size_t t = nd_size(); ASSUME(t >= dk && t < MAXDK + 8);
	CHECK(buf[t] == buf0[t], "nothing written beyond dkLen");
	REACHED();
}
