/*
 * C04 (network part): events_network.c, one inductive step per operation from an ARBITRARY state satisfying the
 * representation invariant INV (the file's own invariants, with no. 6 in the form that is actually inductive:
 * revents != 0 => j <= fdscanpos) plus two ghost relations:
 *   revents & POLLIN/POLLOUT  => a poll reported that descriptor ready for that direction SINCE it was registered
 *   revents & (POLLERR|POLLHUP) => the LATEST poll reported error/hang-up on that descriptor
 * Because fdscanpos and every slot are arbitrary, "cancel/re-register the descriptor being scanned" and "compaction
 * moves an entry under the cursor" are inside each query.  events_mkrec/freerec are a tracked pool: returning,
 * freeing twice or leaking a record are assertions.  NS descriptors (all with slots), real elasticarray.c linked.
 */
#include <stddef.h>
#include <stdint.h>
#include "vh.h"
#include "stub_warnp.c"
#include "events_network.c"
#define NREC 8
struct eventrec { int (*func)(void *); void * cookie; };
static struct eventrec POOL[NREC]; static int LIVE[NREC]; static int pool_bad;
struct eventrec * events_mkrec(int (*f)(void *), void * c) { for (int i = 0; i < NREC; i++) if (!LIVE[i]) { LIVE[i] = 1; POOL[i].func = f; POOL[i].cookie = c; return &POOL[i]; } return NULL; }
void events_freerec(struct eventrec * r) { int i = (int)(r - POOL); if (!(i >= 0 && i < NREC && LIVE[i])) pool_bad = 1; else LIVE[i] = 0; }
void events_network_selectstats_startclock(void) {} void events_network_selectstats_stopclock(void) {} void events_network_selectstats_select(void) {}
int atexit(void (*f)(void)) { (void)f; return 0; }
#ifndef NS
#define NS 3
#endif
#define NF 4	/* pollfd slots allocated */
static int g_ready[NS][2], g_huperr[NS];
static struct socketrec * SR(size_t i) { return socketlist_get(S, i); }
static int inv(void)
{
	if (socketlist_getsize(S) != NS) return 0;
	if (nfds > NS || nfds > fds_alloc) return 0;
	for (size_t i = 0; i < NS; i++) {
		struct socketrec * s = SR(i);
		if (s->pollpos != (size_t)(-1)) { if (s->pollpos >= nfds) return 0; if (fds[s->pollpos].fd != (int)i) return 0; }
		if ((s->reader || s->writer) && s->pollpos == (size_t)(-1)) return 0;
		if (!s->reader && !s->writer && s->pollpos != (size_t)(-1)) return 0;
		if (s->pollpos != (size_t)(-1)) {
			if ((s->reader != NULL) != ((fds[s->pollpos].events & POLLIN) != 0)) return 0;
			if ((s->writer != NULL) != ((fds[s->pollpos].events & POLLOUT) != 0)) return 0;
			if (fds[s->pollpos].events & ~(POLLIN | POLLOUT)) return 0;
		}
		if (s->reader) { int k = (int)(s->reader - POOL); if (k < 0 || k >= NREC || !LIVE[k]) return 0; }
		if (s->writer) { int k = (int)(s->writer - POOL); if (k < 0 || k >= NREC || !LIVE[k]) return 0; if (s->writer == s->reader) return 0; }
	}
	for (size_t j = 0; j < NF; j++) if (j < nfds) {
		if (fds[j].fd < 0 || fds[j].fd >= NS) return 0;
		if (SR((size_t)fds[j].fd)->pollpos != j) return 0;
		if (fds[j].revents & (POLLIN | POLLOUT) & ~fds[j].events) return 0;	/* no stale readiness for a direction that is not registered */
		if (fds[j].revents & ~(POLLIN | POLLOUT | POLLERR | POLLHUP)) return 0;
		if (fds[j].revents != 0 && !(j <= fdscanpos)) return 0;
		if ((fds[j].revents & POLLIN) && !g_ready[fds[j].fd][0]) return 0;
		if ((fds[j].revents & POLLOUT) && !g_ready[fds[j].fd][1]) return 0;
		if ((fds[j].revents & (POLLERR | POLLHUP)) && !g_huperr[fds[j].fd]) return 0;
	}
	for (size_t i = 0; i < NS; i++) for (size_t k = i + 1; k < NS; k++) {
		struct socketrec * a = SR(i), * b = SR(k);
		if (a->reader && (a->reader == b->reader || a->reader == b->writer)) return 0;
		if (a->writer && (a->writer == b->reader || a->writer == b->writer)) return 0;
	}
	return 1;
}
static struct eventrec * rd0[NS], * wr0[NS];
static void mkstate(void)
{
	S = socketlist_init(NS); ASSUME(S != NULL);
	fds_alloc = NF; fds = malloc(fds_alloc * sizeof(struct pollfd)); ASSUME(fds != NULL);
	nfds = nd_size(); fdscanpos = nd_size();
	for (int i = 0; i < NREC; i++) LIVE[i] = nd_bool();
	for (size_t i = 0; i < NS; i++) {
		struct socketrec * s = SR(i); int a = nd_int(), b = nd_int();
		s->reader = (a >= 0 && a < NREC) ? &POOL[a] : NULL; s->writer = (b >= 0 && b < NREC) ? &POOL[b] : NULL; s->pollpos = nd_size();
		g_ready[i][0] = nd_bool(); g_ready[i][1] = nd_bool(); g_huperr[i] = nd_bool();
		rd0[i] = s->reader; wr0[i] = s->writer;
	}
	for (size_t j = 0; j < NF; j++) { fds[j].fd = nd_int(); fds[j].events = nd_short(); fds[j].revents = nd_short(); }
	ASSUME(inv());
}
static int cb(void * c) { (void)c; return 0; }
static void op_register(int s)
{
	int op = nd_int();
	int freeslots = 0; for (int i = 0; i < NREC; i++) freeslots += !LIVE[i];
	int valid = s >= 0 && (op == EVENTS_NETWORK_OP_READ || op == EVENTS_NETWORK_OP_WRITE);
	int had = valid && (op == EVENTS_NETWORK_OP_READ ? SR(s)->reader != NULL : SR(s)->writer != NULL);
	errno = 0;
	int rc = events_network_register(cb, &POOL, s, op);
	CHECK(rc == 0 || rc == -1, "documented return values");
	if (!valid || had) CHECK(rc == -1, "invalid descriptor/operation or a second registration for the same (descriptor, direction) is refused");
	if (had) CHECK(errno == EEXIST, "EEXIST for a double registration");
#ifndef MMF
	if (valid && !had && freeslots > 0) CHECK(rc == 0, "otherwise it succeeds (record pool not exhausted)");
#endif
	if (rc == 0) {
		struct eventrec * r = op == EVENTS_NETWORK_OP_READ ? SR(s)->reader : SR(s)->writer;
		CHECK(r != NULL && r->func == cb && r->cookie == &POOL, "callback and its own cookie recorded");
		g_ready[s][op == EVENTS_NETWORK_OP_READ ? 0 : 1] = 0;	/* nothing polled ready since THIS registration */
		CHECK(!(fds[SR(s)->pollpos].revents & (op == EVENTS_NETWORK_OP_READ ? POLLIN : POLLOUT)), "a fresh registration carries no readiness from before it existed");
	} else {
		for (size_t i = 0; i < NS; i++) CHECK(SR(i)->reader == rd0[i] && SR(i)->writer == wr0[i], "a failed registration leaves nothing registered");
	}
	CHECK(!pool_bad, "record pool discipline");
	CHECK(inv(), "invariant preserved by register");
}
void h_register(void)
{
	mkstate();
	/* the descriptor number is a constant on each symex path (a symbolic one drags a symbolic-size realloc of the socket list in) */
	switch (nd_int_in(-2, NS - 1)) { case -2: op_register(-2); break; case -1: op_register(-1); break; case 0: op_register(0); break; case 1: op_register(1); break;
#if NS > 3
	case 3: op_register(3); break;
#endif
	default: op_register(2); break; }
	REACHED();
}
void h_cancel(void)
{
	mkstate();
	int s = nd_int(), op = nd_int();
	ASSUME(s >= -2 && s <= NS + 1);
	int had = (s >= 0 && s < NS && (op == EVENTS_NETWORK_OP_READ ? SR(s)->reader != NULL : op == EVENTS_NETWORK_OP_WRITE ? SR(s)->writer != NULL : 0));
	struct eventrec * victim = had ? (op == EVENTS_NETWORK_OP_READ ? SR(s)->reader : SR(s)->writer) : NULL;
	errno = 0;
	int rc = events_network_cancel(s, op);
	CHECK((rc == 0) == had && (rc == 0 || rc == -1), "cancel succeeds exactly when that (descriptor, direction) is registered");
	if (rc == -1 && s >= 0 && (op == EVENTS_NETWORK_OP_READ || op == EVENTS_NETWORK_OP_WRITE)) CHECK(errno == ENOENT, "ENOENT when nothing is registered");
	if (rc == 0) {
		int k = (int)(victim - POOL);
		CHECK(!LIVE[k], "the record is released");
		for (size_t i = 0; i < NS; i++) CHECK(SR(i)->reader != victim && SR(i)->writer != victim, "and can no longer be returned by the scan");
		g_ready[s][op == EVENTS_NETWORK_OP_READ ? 0 : 1] = 0;
		for (size_t i = 0; i < NS; i++) if ((int)i != s) CHECK(SR(i)->reader == rd0[i] && SR(i)->writer == wr0[i], "other descriptors untouched");
	}
	CHECK(!pool_bad, "record pool discipline");
	CHECK(inv(), "invariant preserved by cancel (stale revents cleared, compaction keeps pollpos links)");
	REACHED();
}
void h_get(void)
{
	mkstate();
	int r0[NS][2], h0[NS];
	for (int i = 0; i < NS; i++) { r0[i][0] = g_ready[i][0]; r0[i][1] = g_ready[i][1]; h0[i] = g_huperr[i]; }
	struct eventrec * r = events_network_get();
	if (r) {
		int k = (int)(r - POOL);
		CHECK(k >= 0 && k < NREC && LIVE[k], "a returned record is live (registered, not cancelled, not returned before)");
		int found = 0;
		for (int i = 0; i < NS; i++) for (int d = 0; d < 2; d++) if ((d == 0 ? rd0[i] : wr0[i]) == r) {
			found++;
			CHECK(r0[i][d] || h0[i], "the callback is due: a poll since its registration reported the descriptor ready for that direction, or the latest poll reported error/hang-up");
			CHECK((d == 0 ? SR(i)->reader : SR(i)->writer) == NULL, "its slot is cleared before it is handed to the dispatcher (one-shot)");
		}
		CHECK(found == 1, "it is exactly one registration");
		for (size_t i = 0; i < NS; i++) CHECK(SR(i)->reader != r && SR(i)->writer != r, "and it cannot be returned again");
	} else {
		for (size_t i = 0; i < NS; i++) CHECK(SR(i)->reader == rd0[i] && SR(i)->writer == wr0[i], "nothing consumed when nothing is returned");
	}
	for (size_t i = 0; i < NS; i++) if (g_huperr[i]) { g_ready[i][0] = g_ready[i][1] = 1; }	/* ERR/HUP of the latest poll justifies both directions */
	CHECK(!pool_bad, "record pool discipline");
	CHECK(inv(), "invariant preserved by get");
	REACHED();
}
/* poll(2) model: revents subset of events plus ERR/HUP for the first nfds entries; may fail with EINTR */
static int poll_calls, poll_timeout;
int poll(struct pollfd * p, nfds_t n, int timeout)
{
	poll_calls++; poll_timeout = timeout;
	CHECK(p == fds && n == nfds, "poll is given exactly the registered descriptors");
	if (poll_calls <= 2 && nd_bool()) { errno = EINTR; return -1; }	/* interrupted at most twice (bound) */
	for (size_t j = 0; j < NF; j++) if (j < n) {
		short rv = nd_short();
		rv &= (short)((p[j].events & (POLLIN | POLLOUT)) | POLLERR | POLLHUP);
		p[j].revents = rv;
		if (rv & POLLIN) g_ready[p[j].fd][0] = 1;
		if (rv & POLLOUT) g_ready[p[j].fd][1] = 1;
		g_huperr[p[j].fd] = (rv & (POLLERR | POLLHUP)) != 0;
	}
	return 0;
}
void h_select(void)
{
	mkstate();
	for (int i = 0; i < NS; i++) g_huperr[i] = g_huperr[i];	/* (latest-poll flags are overwritten by the model for polled descriptors) */
	struct timeval tv; tv.tv_sec = (time_t)nd_i64(); tv.tv_usec = (suseconds_t)nd_i64();
	ASSUME(tv.tv_sec >= 0 && tv.tv_usec >= 0 && tv.tv_usec < 1000000);
	int usetv = nd_bool();
	volatile sig_atomic_t intr = 0;
	/* stale error flags of descriptors that are no longer polled cannot matter: clear them like a poll would */
	for (int i = 0; i < NS; i++) if (SR(i)->pollpos == (size_t)(-1)) g_huperr[i] = 0;
	int rc = events_network_select(usetv ? &tv : NULL, &intr);
	CHECK(rc == 0, "select succeeds (EINTR is retried)");
	CHECK(poll_calls >= 1, "polls");
	if (!usetv) CHECK(poll_timeout == -1, "no timeout => wait indefinitely");
	else {
		CHECK(poll_timeout >= 0, "a timeout is never turned into an infinite wait");
		__int128 ms = (__int128)tv.tv_sec * 1000 + (tv.tv_usec + 999) / 1000;
		CHECK(poll_timeout == (ms > INT_MAX || tv.tv_sec >= INT_MAX / 1000 ? INT_MAX : (int)ms), "timeout rounded UP to whole milliseconds, capped at INT_MAX, no overflow");
	}
	CHECK(inv(), "invariant re-established after a poll (scan cursor at the last entry)");
	REACHED();
}
