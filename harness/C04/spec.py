def obligations(tier):
    T = tier == "thorough"
    ns = 4 if T else 3
    obs = []
    for ent, nm, what in (("h_register", "network-register", "events_network_register from an arbitrary valid state: refusals (negative fd, bad op, double registration: EEXIST), success records callback+cookie, fresh registration carries no stale readiness, failure leaves nothing registered, invariant preserved"),
                          ("h_cancel", "network-cancel", "events_network_cancel for any (s, op) incl. out of range / unknown op: succeeds iff registered (ENOENT otherwise), record released and unreachable for the scan, stale revents cleared, compaction keeps links, invariant preserved"),
                          ("h_get", "network-get", "events_network_get from an arbitrary scan position: a returned record is live, due (polled ready since registration or ERR/HUP in the latest poll), removed from its slot before being returned, never returnable twice; invariant preserved"),
                          ("h_select", "network-select", "events_network_select: poll given exactly the registered descriptors; timeout -1 iff no timeval, else rounded up to ms and capped at INT_MAX without overflow; EINTR retried; invariant re-established")):
        obs.append(dict(name=nm, harness="net.c", entry=ent, defs=["NS=%d" % ns], srcs=["datastruct/elasticarray.c"], unwind=10,
                        unwindset=["events_network_select#0:5", "events_network_get#0:6"], backends=["cadical"], timeout=1800 if T else 280, claim=what,
                        bounds="%d descriptors (each may hold a reader and a writer), 4 pollfd slots, 8 event records; select: EINTR at most twice" % ns,
                        stubs=["events_mkrec/freerec -> tracked pool", "poll -> model (revents within events|ERR|HUP, EINTR)", "selectstats, atexit, warnp -> no-ops"]))
    return obs
TRUSTED = ["CBMC 6.11 C semantics", "cadical", "the representation invariant INV in harness/C04/net.c (reachability of INV from the empty state is argued in DESIGN.md: init establishes it, every step preserves it)"]
ASSUMPTIONS = ["this check decides the socket-readiness part of C04; immediate events (events_immediate.c), the timer source (events_timer.c) and the dispatcher (events.c) are decided by C05's obligations, the timer heap by C13"]
EXPLANATION = ""
