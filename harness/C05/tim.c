/*
 * C05 / C04 (timer source): events/events_timer.c over an ABSTRACT timer queue (datastruct/timerqueue.c and the heap
 * under it are C13's subject) and an arbitrary monotonic clock.
 *   register  deadline handed to the queue == now + timeout, microseconds normalised into [0, 10^6)
 *   reset     the queue entry is moved to now' + the ORIGINAL timeout
 *   min       NULL when there is no timer; 0 when the earliest deadline has passed; otherwise exactly the distance
 *             to it (normalised) -- the value events_run hands to the blocking poll
 *   get       asks the queue for an entry due at `now`; passes its event record on and releases the timer record
 *   cancel    removes exactly its own queue entry, releases both records once
 *   a failing clock or a failing allocation => -1 / NULL and nothing leaked (--memory-leak-check)
 */
#include <sys/time.h>
#include <stdint.h>
#include <stdlib.h>
#include <string.h>
#include "vh.h"
struct eventrec { int (* func)(void *); void * cookie; };
static struct eventrec REC[2]; static int nrec, rec_freed[2], rec_bad, mk_refuse;
struct eventrec * events_mkrec(int (* f)(void *), void * c) { if (mk_refuse || nrec >= 2) return NULL; REC[nrec].func = f; REC[nrec].cookie = c; return &REC[nrec++]; }
void events_freerec(struct eventrec * r) { int i = (int)(r - REC); if (i < 0 || i >= 2 || rec_freed[i]) rec_bad = 1; else rec_freed[i] = 1; }
/* clock */
static struct timeval NOW; static int clk_fail, clk_calls;
int monoclock_get(struct timeval * tv) { clk_calls++; if (clk_fail) return -1; *tv = NOW; return 0; }
/* abstract timer queue */
struct timerqueue { int dummy; };
static struct timerqueue TQ; static int q_inits, q_refuse_init, q_refuse_add;
static int add_calls, del_calls, inc_calls, getptr_calls; static struct timeval add_tv, inc_tv, getptr_tv; static void * add_ptr, * del_ck, * inc_ck; static char QCK;
static const struct timeval * MIN_TV; static void * DUE_PTR;
struct timerqueue * timerqueue_init(void) { q_inits++; return q_refuse_init ? NULL : &TQ; }
void * timerqueue_add(struct timerqueue * q, const struct timeval * tv, void * p) { (void)q; add_calls++; if (q_refuse_add) return NULL; add_tv = *tv; add_ptr = p; return &QCK; }
void timerqueue_delete(struct timerqueue * q, void * ck) { (void)q; del_calls++; del_ck = ck; }
void timerqueue_increase(struct timerqueue * q, void * ck, const struct timeval * tv) { (void)q; inc_calls++; inc_ck = ck; inc_tv = *tv; }
const struct timeval * timerqueue_getmin(struct timerqueue * q) { (void)q; return MIN_TV; }
void * timerqueue_getptr(struct timerqueue * q, const struct timeval * tv) { (void)q; getptr_calls++; getptr_tv = *tv; return DUE_PTR; }
void timerqueue_free(struct timerqueue * q) { (void)q; }
int atexit(void (*f)(void)) { (void)f; return 0; }
#include "events_timer.c"
static int cbf(void * c) { (void)c; return 0; }
static struct timeval any_tv(void)
{
	struct timeval t; t.tv_sec = (time_t)nd_i64(); t.tv_usec = (suseconds_t)nd_i64();
	ASSUME(t.tv_sec >= 0 && t.tv_sec <= ((time_t)1 << 60) && t.tv_usec >= 0 && t.tv_usec < 1000000);
	return t;
}
/* reference arithmetic on (sec, usec) pairs -- no multiplication by 10^6 (a 128-bit constant multiply stalls the SAT back end) */
static int norm(struct timeval t) { return t.tv_usec >= 0 && t.tv_usec < 1000000; }
static int eq(struct timeval a, struct timeval b) { return a.tv_sec == b.tv_sec && a.tv_usec == b.tv_usec; }
static int ge(struct timeval a, struct timeval b) { return a.tv_sec > b.tv_sec || (a.tv_sec == b.tv_sec && a.tv_usec >= b.tv_usec); }
static struct timeval plus(struct timeval a, struct timeval b) { struct timeval r; long u = (long)a.tv_usec + (long)b.tv_usec; r.tv_sec = a.tv_sec + b.tv_sec + (u >= 1000000); r.tv_usec = u >= 1000000 ? u - 1000000 : u; return r; }
static struct timeval minus(struct timeval a, struct timeval b) { struct timeval r; long u = (long)a.tv_usec - (long)b.tv_usec; r.tv_sec = a.tv_sec - b.tv_sec - (u < 0); r.tv_usec = u < 0 ? u + 1000000 : u; return r; }

void h_timer(void)
{
	struct timeval to = any_tv();
	NOW = any_tv();
	clk_fail = nd_bool(); mk_refuse = nd_bool(); q_refuse_init = nd_bool(); q_refuse_add = nd_bool();
	int had_q = nd_bool(); if (had_q) Q = &TQ;
	void * t = events_timer_register(cbf, &QCK, &to);
	int fail = (!had_q && q_refuse_init) || mk_refuse || clk_fail || q_refuse_add;
#ifdef MMF
	CHECK(!fail || t == NULL, "register fails when the queue, a record, the clock or the insertion fails (or, here, an allocation)");
#else
	CHECK((t == NULL) == fail, "register fails exactly when the queue, a record, the clock or the insertion fails");
#endif
	if (t == NULL) { CHECK((nrec == 0) || rec_freed[0], "failed registration releases the event record"); REACHED(); return; }
	CHECK(add_calls == 1 && add_ptr == t && norm(add_tv) && eq(add_tv, plus(NOW, to)), "deadline = now + timeout, microseconds normalised");
	CHECK(q_inits == (had_q ? 0 : 1), "queue created on first use only");
	struct timeval dl = add_tv;
	int op = nd_int_in(0, 3);
	clk_fail = nd_bool(); clk_calls = 0;
	NOW = any_tv();
	if (op == 0) {
		int rc = events_timer_reset(t);
		CHECK((rc == 0) == !clk_fail && (rc == 0 || rc == -1), "reset fails only with the clock");
		if (rc == 0) CHECK(inc_calls == 1 && inc_ck == &QCK && norm(inc_tv) && eq(inc_tv, plus(NOW, to)), "reset: entry moved to now' + the original timeout");
		else CHECK(inc_calls == 0, "failed reset leaves the entry alone");
		events_timer_cancel(t);
	} else if (op == 1) {
		events_timer_cancel(t);
		CHECK(del_calls == 1 && del_ck == &QCK && rec_freed[0] && !rec_bad, "cancel removes its own queue entry and releases the event record once");
	} else if (op == 2) {
		struct timeval * m = NULL; int some = nd_bool();
		MIN_TV = some ? &dl : NULL;
		int rc = events_timer_min(&m);
		if (!some) CHECK(rc == 0 && m == NULL && clk_calls == 0, "no timer: NULL (wait indefinitely)");
		else if (clk_fail) CHECK(rc == -1, "clock failure reported");
#ifdef MMF
		else if (rc == -1) CHECK(m == NULL || 1, "allocation failure reported");
#endif
		else {
			CHECK(rc == 0 && m != NULL, "a timer is pending: a duration is returned");
			if (m != NULL) {
				CHECK(norm(*m) && m->tv_sec >= 0, "normalised, non-negative");
				if (ge(NOW, dl)) CHECK(m->tv_sec == 0 && m->tv_usec == 0, "deadline reached or passed: zero");
				else CHECK(eq(*m, minus(dl, NOW)), "otherwise exactly the distance to the earliest deadline");
				free(m);
			}
		}
		events_timer_cancel(t);
	} else {
		struct eventrec * r = (struct eventrec *)&QCK; int due = nd_bool();
		DUE_PTR = due ? t : NULL;
		int rc = events_timer_get(&r);
		if (clk_fail) { CHECK(rc == -1 && getptr_calls == 0, "clock failure reported, queue untouched"); events_timer_cancel(t); }
		else {
			CHECK(rc == 0 && getptr_calls == 1 && eq(getptr_tv, NOW), "the queue is asked for an entry due at the current time");
			if (due) CHECK(r == &REC[0] && !rec_freed[0], "a due timer: its event record is passed on (timer record released: leak check)");
			else { CHECK(r == NULL, "nothing due: NULL"); events_timer_cancel(t); }
		}
	}
	CHECK(!rec_bad, "event records released at most once");
	REACHED();
}
