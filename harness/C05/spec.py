def obligations(tier):
    T = tier == "thorough"
    md = 6 if T else 4
    obs = []
    obs.append(dict(name="dispatch-order-progress-status", harness="dispatch.c", entry="h_run", defs=["MAXD=%d" % md], unwind=12, unwindset=["events_run_internal#0:%d" % (md + 2), "events_run_internal#1:%d" % (md + 3)],
                    replace=["mpool_eventrec_malloc:vh_rec_malloc", "mpool_eventrec_free:vh_rec_free"], backends=["cadical"], timeout=1800 if T else 280,
                    claim="events_run over an abstract scheduler: immediate > socket > (re-poll) > timer at every choice; every record taken is dispatched at once; runnable at entry => >= 1 callback and no blocking poll; the blocking poll gets exactly the timer minimum; first non-zero status returned unchanged and nothing dispatched after it; interrupt stops after the current callback with 0 and the flag is cleared",
                    bounds="<= %d dispatched callbacks per run; any interleaving of source answers, statuses, interrupt requests; one internal source failure" % md,
                    stubs=["events_immediate_get/network_get/network_select/timer_min/timer_get -> nondeterministic abstract scheduler with scalar monitors", "mpool_eventrec_malloc/free -> tracked 8-record pool"]))
    obs.append(dict(name="spin-status-interrupt", harness="dispatch.c", entry="h_spin", defs=["MAXD=%d" % (md - 2)], unwind=12, unwindset=["events_run_internal#0:%d" % (md + 2), "events_run_internal#1:%d" % (md + 3), "libcperciva_events_spin#0:%d" % (md + 6)],
                    replace=["mpool_eventrec_malloc:vh_rec_malloc", "mpool_eventrec_free:vh_rec_free"], backends=["cadical"], timeout=1800 if T else 280, claim="events_spin: stops on the first non-zero status (returned unchanged) or interrupt or when the completion flag is set; flag cleared", bounds="<= %d callbacks, <= 3 runs" % (md - 2), stubs=["abstract scheduler"]))
    for npre in ([2] if not T else [2, 3]):
      for op, opn in ((0, "register"), (1, "cancel"), (2, "get")):
        obs.append(dict(name="immediate-queue-%s-n%d" % (opn, npre), harness="imm.c", entry="h_imm", defs=["NPRE=%d" % npre, "TQCAP=%d" % (npre + 1), "OP=%d" % op], unwind=36, model_inc=["tailq"],
                        replace=["mpool_eventq_malloc:vh_q_malloc", "mpool_eventq_free:vh_q_free"], backends=["cadical", "kissat"], timeout=1800 if T else 280,
                        claim="events_immediate.c: from every state with <= %d pending events (arbitrary priorities 0..31, minq anywhere the invariant allows), one %s re-establishes the invariant, and draining yields exactly the model's events in priority order, FIFO within a priority, then NULL" % (npre, opn),
                        bounds="<= %d pending events before the step; all priorities, all admissible minq" % npre, stubs=["TAILQ macros (external/queue/queue.h) -> sequence model, differential-tested", "events_mkrec/events_freerec -> tracked records", "mpool_eventq_malloc/free -> tracked pool"]))
    obs.append(dict(name="timer-source-steps", harness="tim.c", entry="h_timer", unwind=8, backends=["cadical"], timeout=1800 if T else 280, flags=["--memory-leak-check"],
                    claim="events_timer.c over an abstract timer queue and an arbitrary clock: deadline = now + timeout (normalised); reset re-arms with the original timeout; events_timer_min = NULL / 0 / exact distance to the earliest deadline; events_timer_get passes on the record of an entry due now; cancel removes its own entry; clock/allocation failures => -1/NULL, nothing leaked",
                    bounds="seconds in [0, 2^60], microseconds in [0, 10^6)", stubs=["timerqueue_* -> recording abstract queue (heap order is C13)", "monoclock_get -> arbitrary instant or failure", "events_mkrec/freerec -> tracked", "atexit -> no-op"]))
    return obs
SELFTESTS = [dict(name="tailq-model-vs-queue-h", srcs=["/verif/models/tailq/selftest_tailq.c"], what="models/tailq/queue.h (sequence model of TAILQ) == external/queue/queue.h on 2,000,000 random insert/remove operations over 3 lists")]
TRUSTED = ["CBMC 6.11 C semantics", "cadical"]
ASSUMPTIONS = ["priority/FIFO order inside the immediate source, deadline order of timers and the millisecond rounding are properties of the sources: rounding is decided in C04 network-select, heap order in C13"]
EXPLANATION = ""
