/*
 * C05 (immediate source): events/events_immediate.c -- the 32 priority FIFOs and the minq hint.
 * Pre-state: up to NPRE events registered through the real register() with arbitrary priorities, then minq moved
 * to ANY value the invariant allows (every queue below minq is empty): that is every state a history of
 * register/cancel/get can leave for <= NPRE pending events (minq may lag behind the first non-empty queue).
 * Step: one register / cancel / get.  Afterwards the invariant must hold again and DRAINING the source must yield
 * exactly the model's events in (priority ascending, first-in-first-out) order, then NULL: so nothing is lost,
 * duplicated, reordered, and a cancelled event never comes back.
 * The TAILQ macros of external/queue/queue.h are replaced by a sequence model (models/tailq/queue.h, differential-
 * tested against the real macros on every run): with the real pointer-to-pointer lists and symbolic priorities the 32
 * heads alias through tqe_prev and the query grows past 100M clauses.
 * events_mkrec / events_freerec are tracked stubs (the records themselves are C05 dispatcher / C12 mpool matter).
 */
#include <stdint.h>
#include <stdlib.h>
#include "vh.h"
struct eventrec { int (* func)(void *); void * cookie; };
#ifndef NPRE
#define NPRE 3
#endif
#define NREC (NPRE + 1)
static struct eventrec REC[NREC]; static int rec_live[NREC], rec_freed[NREC], nrec, rec_bad, mk_refuse;
struct eventrec * events_mkrec(int (* f)(void *), void * c) { if (mk_refuse || nrec >= NREC) return NULL; REC[nrec].func = f; REC[nrec].cookie = c; rec_live[nrec] = 1; return &REC[nrec++]; }
void events_freerec(struct eventrec * r) { int i = (int)(r - REC); if (i < 0 || i >= NREC || !rec_live[i]) rec_bad = 1; else { rec_live[i] = 0; rec_freed[i] = 1; } }
/* queue nodes come from a small tracked pool instead of the 4096-entry mpool cache (C12's subject) */
struct eventq; struct eventq * vh_q_malloc(void); void vh_q_free(struct eventq *);
#include "events_immediate.c"
static struct eventq QP[NREC]; static int q_live[NREC], q_bad;
static unsigned char tq_id(const void * p) { return (unsigned char)((const struct eventq *)p - QP + 1); }
static void * tq_ptr(unsigned char i) { return (i >= 1 && i <= NREC) ? &QP[i - 1] : NULL; }
struct eventq * vh_q_malloc(void) { for (int i = 0; i < NREC; i++) if (!q_live[i]) { q_live[i] = 1; return &QP[i]; } return NULL; }
void vh_q_free(struct eventq * q) { int i = (int)(q - QP); if (i < 0 || i >= NREC || !q_live[i]) q_bad = 1; else q_live[i] = 0; }
static int cbf(void * c) { (void)c; return 0; }

/* model: events 0..nm-1 in registration order with their priority; gone[] = cancelled or already taken */
static int m_prio[NREC], m_gone[NREC], nm; static void * m_ck[NREC];
static int model_next(void)
{
	int best = -1;
	for (int i = 0; i < nm; i++) if (!m_gone[i] && (best < 0 || m_prio[i] < m_prio[best])) best = i;
	return best;
}
static int inv_ok(void)
{
	if (minq < 0 || minq > 32) return 0;
	for (int j = 0; j < 32; j++) if (j < minq && !TAILQ_EMPTY(&heads[j])) return 0;
	return 1;
}
void h_imm(void)
{
	int n = nd_int_in(0, NPRE);
	for (int i = 0; i < NPRE; i++) if (i < n) {
		int p = nd_int_in(0, 31);
		void * ck = events_immediate_register(cbf, &REC[i], p);
		ASSUME(ck != NULL);
		m_prio[nm] = p; m_ck[nm] = ck; nm++;
	}
	{ int lo = 32; for (int i = 0; i < nm; i++) if (m_prio[i] < lo) lo = m_prio[i]; int q = nd_int_in(0, 32); ASSUME(q <= lo); minq = q; }	/* minq anywhere the invariant allows */
	CHECK(inv_ok(), "harness: pre-state satisfies the invariant");
#ifdef OP
	int op = OP;	/* one obligation per operation */
#else
	int op = nd_int_in(0, 2);
#endif
	if (op == 0) {
		int p = nd_int_in(0, 31);
		mk_refuse = nd_bool();
		void * ck = events_immediate_register(cbf, &REC[nm], p);
		CHECK((ck != NULL) == !mk_refuse, "register fails only if no record can be made");
		if (ck != NULL) { m_prio[nm] = p; m_ck[nm] = ck; nm++; }
	} else if (op == 1) {
		int i = nd_int_in(0, NPRE - 1);
		if (i < nm) {
			events_immediate_cancel(m_ck[i]);
			m_gone[i] = 1;
			CHECK(rec_freed[i] && !rec_bad, "cancel releases the event's record, once");
		}
	} else {
		int e = model_next();
		struct eventrec * r = events_immediate_get();
		if (e < 0) CHECK(r == NULL, "nothing pending => NULL");
		else { CHECK(r == &REC[e], "get returns the earliest-registered event of the lowest pending priority"); m_gone[e] = 1; }
	}
	CHECK(inv_ok(), "invariant: 0 <= minq <= 32 and every queue below minq is empty");
	for (int k = 0; k <= NREC; k++) {	/* drain */
		int e = model_next();
		struct eventrec * r = events_immediate_get();
		if (e < 0) { CHECK(r == NULL, "drained: no event left (a cancelled or taken event never comes back)"); break; }
		CHECK(r == &REC[e], "events come out in priority order, first-in-first-out within a priority, none lost");
		if (r != &REC[e]) break;
		CHECK(r->func == cbf && r->cookie == &REC[e] && rec_live[e], "the record still carries its callback and cookie and was not released");
		m_gone[e] = 1;
	}
	CHECK(!rec_bad && !q_bad, "records and queue nodes released at most once");
	CHECK(!tq_over && !tq_bad, "list model: capacity not exceeded, only members removed");
	REACHED();
}
