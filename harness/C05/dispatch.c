/*
 * C05: the dispatcher events_run_internal / events_run / events_spin (real events/events.c) over an ABSTRACT
 * scheduler: the three sources answer "here is a record" / "nothing" nondeterministically (at most MAXD records in
 * total), callbacks return an arbitrary status and may request an interrupt.  Every source call and every dispatch is
 * logged; the order, progress and status rules are assertions over the log.  That the real sources answer correctly
 * (priority/FIFO, due-ness, deadlines) is C04's and C13's subject.
 */
#include <stdint.h>
#include <stdlib.h>
#include <string.h>
#include "vh.h"
/* forward declarations for the native replay (calls are rebound textually there) */
struct eventrec; struct eventrec * vh_rec_malloc(void); void vh_rec_free(struct eventrec *);
#include "events.c"
#ifndef MAXD
#define MAXD 4
#endif
/* scalar monitors instead of an event log (a log written at a symbolic index exhausted memory) */
enum { K_IMM = 1, K_NET = 2, K_TIM = 3 };
static int given, cb_status[MAXD + 1], cb_intr[MAXD + 1], ncb, first_status, stop_seen, after_stop;
static int pending_kind, pairing_bad;		/* a record was taken from a source and must be dispatched next */
static int imm_none_since_cb, net_none_since_cb, selzero_since_cb, order_bad;
static int first_event, blocking_polls, blocking_poll_bad, events_seen;
static struct timeval * tmin_ptr; static int fail_tmin, fail_sel, fail_tget, failed_call;
static int * spin_done, tmin_calls, spin_mode;
static int kinds[4] = {0, K_IMM, K_NET, K_TIM};
/* records come from a small tracked pool (the real 4096-entry mpool cache is C12's subject): double free / use after free are assertions */
#define NR 8
static struct eventrec RP[NR]; static int RLIVE[NR], rec_bad;
struct eventrec * vh_rec_malloc(void) { for (int i = 0; i < NR; i++) if (!RLIVE[i]) { RLIVE[i] = 1; return &RP[i]; } return NULL; }
void vh_rec_free(struct eventrec * r) { int i = (int)(r - RP); if (i < 0 || i >= NR || !RLIVE[i]) rec_bad = 1; else RLIVE[i] = 0; }
static void source_event(void) { if (pending_kind) pairing_bad = 1; if (!events_seen) events_seen = 1; }
static int cb(void * cookie)
{
	int kind = *(int *)cookie;
	if (pending_kind != kind) pairing_bad = 1;
	pending_kind = 0;
	if (kind == K_NET && !imm_none_since_cb) order_bad = 1;
	if (kind == K_TIM && !(imm_none_since_cb && net_none_since_cb && selzero_since_cb)) order_bad = 1;
	imm_none_since_cb = net_none_since_cb = selzero_since_cb = 0;
	if (stop_seen) after_stop = 1;
	int st = cb_status[ncb], in = cb_intr[ncb];
	ncb++;
	if (in) events_interrupt();
	if (st != 0 && first_status == 0) first_status = st;
	if (st != 0 || in) stop_seen = 1;
	return st;
}
static struct eventrec * give(int k)
{
	if (given >= MAXD || !nd_bool()) return NULL;
	given++;
	struct eventrec * r = events_mkrec(cb, &kinds[k]);
	ASSUME(r != NULL);
	pending_kind = k;
	return r;
}
struct eventrec * events_immediate_get(void) { source_event(); if (first_event == 0) first_event = 10; struct eventrec * r = give(K_IMM); if (first_event == 10) first_event = r ? 11 : 12; if (!r) imm_none_since_cb = 1; return r; }
struct eventrec * events_network_get(void) { source_event(); struct eventrec * r = give(K_NET); if (!r) net_none_since_cb = 1; return r; }
int events_timer_get(struct eventrec ** r) { source_event(); if (fail_tget) { failed_call = 1; return -1; } *r = give(K_TIM); return 0; }
int events_timer_min(struct timeval ** tv)
{
	source_event();
	if (spin_done && ++tmin_calls >= 3) *spin_done = 1;	/* the application's completion flag eventually becomes true */
	if (fail_tmin) { failed_call = 1; return -1; }
	if (nd_bool()) tmin_ptr = NULL; else { tmin_ptr = malloc(sizeof(struct timeval)); ASSUME(tmin_ptr != NULL); tmin_ptr->tv_sec = 1; tmin_ptr->tv_usec = 2; }
	*tv = tmin_ptr;
	return 0;
}
int events_network_select(const struct timeval * tv, const volatile sig_atomic_t * ir)
{
	source_event();
	CHECK(ir == &interrupt_requested, "select can be interrupted by the loop's own flag");
	if (spin_mode) { if (tv == NULL || tv == tmin_ptr) blocking_polls++; else selzero_since_cb = 1; }
	else if (blocking_polls == 0 && (tv == NULL || tv == tmin_ptr) && first_event == 12 && ncb == 0) { blocking_polls++; if (tv != tmin_ptr) blocking_poll_bad = 1; }
	else { CHECK(tv != NULL && tv->tv_sec == 0 && tv->tv_usec == 0, "every later poll is non-blocking (zero timeout)"); selzero_since_cb = 1; }
	if (fail_sel) { failed_call = 1; return -1; }
	return 0;
}
void h_run(void)
{
	for (int i = 0; i <= MAXD; i++) { cb_status[i] = nd_int(); cb_intr[i] = nd_bool(); }
	fail_tmin = nd_bool(); fail_sel = nd_bool(); fail_tget = nd_bool();
	ASSUME(fail_tmin + fail_sel + fail_tget <= 1);
	int rc = events_run();
	CHECK(interrupt_requested == 0, "interrupt request cleared when the run returns");
	CHECK(!pairing_bad && pending_kind == 0, "every record taken from a source is dispatched at once, with its own kind (events not run stay registered)");
	CHECK(!order_bad, "a socket callback runs only after the immediate source reported nothing since the previous callback; a timer callback only after immediates and sockets (re-polled with zero timeout) reported nothing");
	CHECK(!after_stop, "nothing is dispatched after a non-zero status or an interrupt request");
	CHECK(!rec_bad, "event records released exactly once, after their callback");
	for (int i = 0; i < NR; i++) CHECK(!RLIVE[i], "no event record leaked");
	if (first_event == 11) { CHECK(ncb >= 1, "something runnable at entry => at least one callback"); CHECK(blocking_polls == 0, "and no blocking wait"); }
	CHECK(!blocking_poll_bad, "the blocking poll waits exactly for the timer source's minimum distance (NULL = no timers = indefinitely)");
	if (first_status != 0) CHECK(rc == first_status, "the first non-zero callback result is returned unchanged");
	else if (!failed_call) CHECK(rc == 0, "otherwise 0 (also after an interrupt request)");
	else CHECK(rc == -1 || rc == 0, "internal failure => -1");
	REACHED();
}
void h_spin(void)
{
	int done = 0;
	for (int i = 0; i <= MAXD; i++) { cb_status[i] = nd_int(); cb_intr[i] = nd_bool(); }
	spin_done = &done; spin_mode = 1;
	int rc = events_spin(&done);
	CHECK(interrupt_requested == 0, "interrupt request cleared when the spin returns");
	if (first_status != 0) CHECK(rc == first_status, "first non-zero status returned unchanged");
	CHECK(!after_stop, "nothing dispatched after the stop condition");
	CHECK(!pairing_bad && !order_bad && !rec_bad, "pairing, source order and record discipline hold across runs");
	if (first_status == 0 && !stop_seen) CHECK(rc == 0 && done == 1, "without a status or interrupt the spin ends when the completion flag is set");
	REACHED();
}
