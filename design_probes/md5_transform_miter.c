#include <stdint.h>
#include <string.h>
#include "md5.c"
static uint32_t rotl(uint32_t x, unsigned n){ return (x << n) | (x >> (32-n)); }
/* RFC 1321 reference, T[i] = floor(2^32*abs(sin(i+1))) */
static const uint32_t TT[64]={
0xd76aa478,0xe8c7b756,0x242070db,0xc1bdceee,0xf57c0faf,0x4787c62a,0xa8304613,0xfd469501,
0x698098d8,0x8b44f7af,0xffff5bb1,0x895cd7be,0x6b901122,0xfd987193,0xa679438e,0x49b40821,
0xf61e2562,0xc040b340,0x265e5a51,0xe9b6c7aa,0xd62f105d,0x02441453,0xd8a1e681,0xe7d3fbc8,
0x21e1cde6,0xc33707d6,0xf4d50d87,0x455a14ed,0xa9e3e905,0xfcefa3f8,0x676f02d9,0x8d2a4c8a,
0xfffa3942,0x8771f681,0x6d9d6122,0xfde5380c,0xa4beea44,0x4bdecfa9,0xf6bb4b60,0xbebfbc70,
0x289b7ec6,0xeaa127fa,0xd4ef3085,0x04881d05,0xd9d4d039,0xe6db99e5,0x1fa27cf8,0xc4ac5665,
0xf4292244,0x432aff97,0xab9423a7,0xfc93a039,0x655b59c3,0x8f0ccc92,0xffeff47d,0x85845dd1,
0x6fa87e4f,0xfe2ce6e0,0xa3014314,0x4e0811a1,0xf7537e82,0xbd3af235,0x2ad7d2bb,0xeb86d391};
static const int SH[64]={7,12,17,22,7,12,17,22,7,12,17,22,7,12,17,22,5,9,14,20,5,9,14,20,5,9,14,20,5,9,14,20,
4,11,16,23,4,11,16,23,4,11,16,23,4,11,16,23,6,10,15,21,6,10,15,21,6,10,15,21,6,10,15,21};
static void ref_md5(uint32_t st[4], const uint8_t blk[64]){
  uint32_t X[16]; for(int i=0;i<16;i++) X[i]=(uint32_t)blk[4*i]|((uint32_t)blk[4*i+1]<<8)|((uint32_t)blk[4*i+2]<<16)|((uint32_t)blk[4*i+3]<<24);
  uint32_t a=st[0],b=st[1],c=st[2],d=st[3];
  for(int i=0;i<64;i++){ uint32_t f; int g;
    if(i<16){ f=(b&(c^d))^d; g=i; } else if(i<32){ f=(d&(b^c))^c; g=(5*i+1)%16; } else if(i<48){ f=b^c^d; g=(3*i+5)%16; } else { f=(b|~d)^c; g=(7*i)%16; }
    uint32_t t=d; d=c; c=b; b=b+rotl(a+f+(X[g]+TT[i]),SH[i]); a=t; }
  st[0]+=a;st[1]+=b;st[2]+=c;st[3]+=d;
}
uint32_t nondet_u32(void); uint8_t nondet_u8(void);
void harness(void){ uint32_t s1[4],s2[4]; uint8_t blk[64];
  for(int i=0;i<4;i++) s1[i]=s2[i]=nondet_u32(); for(int i=0;i<64;i++) blk[i]=nondet_u8();
  MD5_Transform(s1,blk); ref_md5(s2,blk);
  for(int i=0;i<4;i++) __CPROVER_assert(s1[i]==s2[i],"md5 eq"); }
