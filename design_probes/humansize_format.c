#include <stdint.h>
#include <stdarg.h>
#include <stdio.h>
#include "humansize.c"
static int cap_a, cap_b, cap_form; static char cap_p;
int libcperciva_asprintf(char **ret, const char *fmt, ...){ va_list ap; va_start(ap, fmt);
  if (fmt[2]==' ' && fmt[3]=='B') { cap_form=0; cap_a=va_arg(ap,int); }
  else if (fmt[2]=='.') { cap_form=1; cap_a=va_arg(ap,int); cap_b=va_arg(ap,int); cap_p=(char)va_arg(ap,int); }
  else { cap_form=2; cap_a=va_arg(ap,int); cap_p=(char)va_arg(ap,int); }
  va_end(ap); *ret=(char*)1; return 1; }
void libcperciva_warn(const char *f, ...){} 
uint64_t nondet_u64(void);
void harness(void){ uint64_t size=nondet_u64(); humansize(size);
  static const char P[]=" kMGTPE"; unsigned __int128 unit=1; int n=0;
  if (cap_form==0){ __CPROVER_assert(size<1000 && (uint64_t)cap_a==size, "bytes form exact"); return; }
  for(n=1;n<=6;n++) if(P[n]==cap_p) break; __CPROVER_assert(n<=6,"prefix valid");
  for(int i=0;i<n;i++) unit*=1000;
  unsigned __int128 m, u10=unit/10;
  if (cap_form==1){ __CPROVER_assert(cap_a>=1&&cap_a<=9&&cap_b>=0&&cap_b<=9,"X.Y digits"); m=(unsigned)(cap_a*10+cap_b); }
  else { __CPROVER_assert(cap_a>=10&&cap_a<=999,"integer form range"); m=(unsigned __int128)cap_a*10; }
  unsigned __int128 step = (cap_form==1)? u10 : unit;
  __CPROVER_assert(m*u10 <= size, "not above size");
  __CPROVER_assert(m*u10 + step > size, "next representable is above size");
}
