#include <stddef.h>
#include <stdint.h>
#include <string.h>
#include "getopt.h"
int atexit(void (*f)(void)){ return 0; }
char nondet_char(void); int nondet_int(void);
#define NARG 3
#define SLEN 3
static char A[NARG][SLEN+1];
static int seq[8]; static const char *args[8]; static int nseq;
void harness(void){
  char *argv[NARG+2]; static char prog[]="p"; argv[0]=prog;
  int argc = nondet_int(); __CPROVER_assume(argc>=1 && argc<=NARG+1);
  for(int i=0;i<NARG;i++){ for(int j=0;j<SLEN;j++){ char c=nondet_char(); __CPROVER_assume(c=='-'||c=='a'||c=='b'||c=='='||c=='x'||c==0); A[i][j]=c; } A[i][SLEN]=0; argv[i+1]=A[i]; }
  argv[argc]=NULL;
  const char *ch;
  while ((ch = GETOPT(argc, argv)) != NULL) {
    GETOPT_SWITCH(ch) {
    GETOPT_OPT("-a"):
      seq[nseq]=1; args[nseq++]=NULL; break;
    GETOPT_OPTARG("-b"):
      seq[nseq]=2; args[nseq++]=optarg; break;
    GETOPT_OPT("--ab"):
      seq[nseq]=3; args[nseq++]=NULL; break;
    GETOPT_MISSING_ARG:
      seq[nseq]=4; args[nseq++]=NULL; break;
    GETOPT_DEFAULT:
      seq[nseq]=5; args[nseq++]=NULL; break;
    }
    __CPROVER_assert(nseq<=6,"bounded number of options");
  }
  __CPROVER_assert(optind>=1 && optind<=argc, "optind in range");
#ifdef WITNESS
  __CPROVER_assert(!(nseq==2 && seq[0]==2 && seq[1]==3), "witness");
#endif
}
