#include <stdlib.h>
#include <stdint.h>
static int helper(int x) { return x + 1; }
int api(int x) { return helper(x) * 2; }
int stub_helper(int x) { return 7; }
/* volatile fn ptr */
static void zf(volatile void *b, size_t n){ volatile uint8_t *p=b; for(size_t i=0;i<n;i++) p[i]=0; }
void (* volatile zp)(volatile void *, size_t) = zf;
/* computed goto */
int cg(int sel){ void *tgt = &&L1; int r=0; if(sel) tgt=&&L2; goto *tgt; L1: r=1; goto out; L2: r=2; out: return r; }
int nondet_int(void);
void h1(void){ int x = nondet_int(); __CPROVER_assume(x>=0 && x<100); __CPROVER_assert(api(x)==14, "replaced"); }
void h2(void){ uint8_t buf[4]={1,2,3,4}; zp(buf,4); __CPROVER_assert(buf[0]==0&&buf[3]==0,"zeroed"); }
void h3(void){ __CPROVER_assert(cg(0)==1 && cg(1)==2, "computed goto"); }
void h4(void){ char *p = malloc(4); if(!p) return; char *q = malloc(4); if(!q){ /* leak p on purpose? no: */ free(p); return;} free(q); /* forget p -> leak */ }
