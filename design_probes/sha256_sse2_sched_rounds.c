#include <stdint.h>
#include <string.h>
#include "sha256.c"
static uint32_t rotr(uint32_t x, unsigned n){ return (x >> n) | (x << (32-n)); }
static const uint32_t RK[64] = {
0x428a2f98,0x71374491,0xb5c0fbcf,0xe9b5dba5,0x3956c25b,0x59f111f1,0x923f82a4,0xab1c5ed5,
0xd807aa98,0x12835b01,0x243185be,0x550c7dc3,0x72be5d74,0x80deb1fe,0x9bdc06a7,0xc19bf174,
0xe49b69c1,0xefbe4786,0x0fc19dc6,0x240ca1cc,0x2de92c6f,0x4a7484aa,0x5cb0a9dc,0x76f988da,
0x983e5152,0xa831c66d,0xb00327c8,0xbf597fc7,0xc6e00bf3,0xd5a79147,0x06ca6351,0x14292967,
0x27b70a85,0x2e1b2138,0x4d2c6dfc,0x53380d13,0x650a7354,0x766a0abb,0x81c2c92e,0x92722c85,
0xa2bfe8a1,0xa81a664b,0xc24b8b70,0xc76c51a3,0xd192e819,0xd6990624,0xf40e3585,0x106aa070,
0x19a4c116,0x1e376c08,0x2748774c,0x34b0bcb5,0x391c0cb3,0x4ed8aa4a,0x5b9cca4f,0x682e6ff3,
0x748f82ee,0x78a5636f,0x84c87814,0x8cc70208,0x90befffa,0xa4506ceb,0xbef9a3f7,0xc67178f2};
static void ref_rounds(uint32_t v[8], const uint32_t W[64], int t0, int t1){
  uint32_t a=v[0],b=v[1],c=v[2],d=v[3],e=v[4],f=v[5],g=v[6],h=v[7],T1,T2; int t;
  for(t=t0;t<t1;t++){
    T1=h+(rotr(e,6)^rotr(e,11)^rotr(e,25))+((e & (f ^ g)) ^ g)+RK[t]+W[t];
    T2=(rotr(a,2)^rotr(a,13)^rotr(a,22))+((a & (b | c)) | (b & c));
    h=g;g=f;f=e;e=d+T1;d=c;c=b;b=a;a=T1+T2; }
  v[0]=a;v[1]=b;v[2]=c;v[3]=d;v[4]=e;v[5]=f;v[6]=g;v[7]=h;
}
int nondet_int(void); uint32_t nondet_u32(void); uint8_t nondet_u8(void);
void harness(void){
  uint32_t st[8], st0[8]; uint8_t blk[64]; uint32_t W[64], S[8];
  for(int i=0;i<8;i++){ st[i]=nondet_u32(); st0[i]=st[i]; }
  for(int i=0;i<64;i++) blk[i]=nondet_u8();
  FUNC(st, blk, W, S);
#ifdef PART_SCHED
  for(int t=0;t<16;t++) __CPROVER_assert(W[t]==(((uint32_t)blk[4*t]<<24)|((uint32_t)blk[4*t+1]<<16)|((uint32_t)blk[4*t+2]<<8)|blk[4*t+3]), "W0-15");
  int t=nondet_int(); __CPROVER_assume(t>=TLO && t<THI);
  __CPROVER_assert(W[t]==(rotr(W[t-2],17)^rotr(W[t-2],19)^(W[t-2]>>10))+W[t-7]+(rotr(W[t-15],7)^rotr(W[t-15],18)^(W[t-15]>>3))+W[t-16], "W recurrence");
#else
  uint32_t v[8]; for(int i=0;i<8;i++) v[i]=st0[i];
  ref_rounds(v, W, 0, 64);
  for(int i=0;i<8;i++) __CPROVER_assert(st[i]==st0[i]+v[i], "state");
#endif
}
