#include <stddef.h>
#include <stdint.h>
#include <stdlib.h>
#include <errno.h>
#include <inttypes.h>
/* model of strtoumax (C11 7.22.1.4), reads s byte by byte */
static int dig(char c){ if(c>='0'&&c<='9') return c-'0'; if(c>='a'&&c<='z') return c-'a'+10; if(c>='A'&&c<='Z') return c-'A'+10; return 99; }
uintmax_t strtoumax(const char *s, char **end, int base){
  const char *p=s; while(*p==' '||(*p>='\t'&&*p<='\r')) p++;
  int neg=0; if(*p=='+'||*p=='-'){ neg=(*p=='-'); p++; }
  if((base==0||base==16) && p[0]=='0' && (p[1]=='x'||p[1]=='X') && dig(p[2])<16){ p+=2; base=16; }
  else if(base==0) base = (p[0]=='0')?8:10;
  uintmax_t v=0; int any=0, ovf=0;
  while(dig(*p)<base){ int d=dig(*p); if(v>(UINTMAX_MAX-d)/base) ovf=1; else v=v*base+d; any=1; p++; }
  if(!any){ if(end) *end=(char*)s; return 0; }
  if(end) *end=(char*)p; if(ovf){ errno=ERANGE; return UINTMAX_MAX; }
  return neg? -v : v;
}
#include "http.c"
/* ---- netbuf model: unconsumed data lives in an exact-size object ---- */
static uint8_t *DATA; static size_t DLEN; static size_t consumed; static int waits; static int user_cbs; static int cancelled;
void netbuf_read_peek(struct netbuf_read *R, uint8_t **d, size_t *n){ *d=DATA; *n=DLEN; }
void netbuf_read_consume(struct netbuf_read *R, size_t n){ __CPROVER_assert(n<=DLEN,"consume within data"); consumed+=n; DATA+=n; DLEN-=n; }
int netbuf_read_wait(struct netbuf_read *R, size_t len, int (*cb)(void *, int), void *c){ waits++; return 0; }
void netbuf_read_wait_cancel(struct netbuf_read *R){} void netbuf_read_free(struct netbuf_read *R){} void netbuf_write_free(struct netbuf_write *W){}
struct netbuf_read * netbuf_read_init(int s){ return NULL; } struct netbuf_write * netbuf_write_init(int s, int (*f)(void *), void *c){ return NULL; }
int netbuf_write_write(struct netbuf_write *W, const uint8_t *b, size_t n){ return 0; }
void * network_connect(struct sock_addr * const *sas, int (*cb)(void *, int), void *c){ return NULL; } void network_connect_cancel(void *c){}
int close(int fd){ return 0; }
void libcperciva_warn(const char *f, ...){} void libcperciva_warnx(const char *f, ...){}
static int ucb(void *c, struct http_response *r){ user_cbs++; if (r) { __CPROVER_assert(r->bodylen==(size_t)(-1) ? r->body==NULL : 1, "toobig has no body"); if (r->body) free(r->body); } return 0; }
size_t nondet_size(void); uint8_t nondet_u8(void); int nondet_int(void);
#ifndef NMAX
#define NMAX 6
#endif
void h_chunkhdr(void){
  struct http_cookie *H = malloc(sizeof(*H)); __CPROVER_assume(H);
  H->connect_cookie=NULL; H->R=(void*)1; H->W=NULL; H->ssl=NULL; H->s=-1; H->sslhost=NULL; H->req_head=NULL; H->res_head=NULL; H->res.headers=NULL;
  H->callback=ucb; H->cookie=NULL; H->chunked=1;
  H->res_bodylen_max=nondet_size(); H->res.bodylen=nondet_size(); H->res_bodylen_alloc=nondet_size();
  __CPROVER_assume(H->res.bodylen<=H->res_bodylen_alloc && H->res_bodylen_alloc<=H->res_bodylen_max && H->res_bodylen_alloc<=8);
  H->res.body = H->res_bodylen_alloc? malloc(H->res_bodylen_alloc):NULL; __CPROVER_assume(H->res_bodylen_alloc==0||H->res.body);
  size_t n=nondet_size(); __CPROVER_assume(n<=NMAX);
  uint8_t *d=malloc(n); __CPROVER_assume(d||n==0); for(size_t i=0;i<NMAX;i++) if(i<n) d[i]=nondet_u8();
  DATA=d; DLEN=n;
  callback_chunkedheader(H, 0);
}
static int next_readdata; static size_t next_readlen;
int stub_readdata(void *c, int status){ struct http_cookie *H=c; next_readdata++; next_readlen=H->readlen;
  __CPROVER_assert(H->readlen - 2 <= H->res_bodylen_max - H->res.bodylen, "chunk fits limit");
  __CPROVER_assert(H->readlen <= H->res_bodylen_max - H->res.bodylen, "chunk plus CRLF fits addbody assertion");
  return 0; }
