#include <stdint.h>
#include <string.h>
#include "sha256.c"

/* FIPS 180-4 reference compression function */
static uint32_t rotr(uint32_t x, unsigned n){ return (x >> n) | (x << (32-n)); }
static const uint32_t RK[64] = {
0x428a2f98,0x71374491,0xb5c0fbcf,0xe9b5dba5,0x3956c25b,0x59f111f1,0x923f82a4,0xab1c5ed5,
0xd807aa98,0x12835b01,0x243185be,0x550c7dc3,0x72be5d74,0x80deb1fe,0x9bdc06a7,0xc19bf174,
0xe49b69c1,0xefbe4786,0x0fc19dc6,0x240ca1cc,0x2de92c6f,0x4a7484aa,0x5cb0a9dc,0x76f988da,
0x983e5152,0xa831c66d,0xb00327c8,0xbf597fc7,0xc6e00bf3,0xd5a79147,0x06ca6351,0x14292967,
0x27b70a85,0x2e1b2138,0x4d2c6dfc,0x53380d13,0x650a7354,0x766a0abb,0x81c2c92e,0x92722c85,
0xa2bfe8a1,0xa81a664b,0xc24b8b70,0xc76c51a3,0xd192e819,0xd6990624,0xf40e3585,0x106aa070,
0x19a4c116,0x1e376c08,0x2748774c,0x34b0bcb5,0x391c0cb3,0x4ed8aa4a,0x5b9cca4f,0x682e6ff3,
0x748f82ee,0x78a5636f,0x84c87814,0x8cc70208,0x90befffa,0xa4506ceb,0xbef9a3f7,0xc67178f2};
static void ref_compress(uint32_t H[8], const uint8_t M[64]){
  uint32_t W[64]; uint32_t a,b,c,d,e,f,g,h,T1,T2; int t;
  for(t=0;t<16;t++) W[t]=((uint32_t)M[4*t]<<24)|((uint32_t)M[4*t+1]<<16)|((uint32_t)M[4*t+2]<<8)|M[4*t+3];
  for(t=16;t<64;t++){ uint32_t s0=rotr(W[t-15],7)^rotr(W[t-15],18)^(W[t-15]>>3);
     uint32_t s1=rotr(W[t-2],17)^rotr(W[t-2],19)^(W[t-2]>>10); W[t]=s1+W[t-7]+s0+W[t-16]; }
  a=H[0];b=H[1];c=H[2];d=H[3];e=H[4];f=H[5];g=H[6];h=H[7];
  for(t=0;t<64;t++){
    T1=h+(((rotr(e,6)^rotr(e,11)^rotr(e,25))+((e & (f ^ g)) ^ g))+(W[t]+RK[t]));
    T2=(rotr(a,2)^rotr(a,13)^rotr(a,22))+((a & (b | c)) | (b & c));
    h=g;g=f;f=e;e=d+T1;d=c;c=b;b=a;a=T1+T2; }
  H[0]+=a;H[1]+=b;H[2]+=c;H[3]+=d;H[4]+=e;H[5]+=f;H[6]+=g;H[7]+=h;
}
uint32_t nondet_u32(void); uint8_t nondet_u8(void);
void harness(void){
  uint32_t st[8], st2[8]; uint8_t blk[64]; uint32_t W[64], S[8];
  for(int i=0;i<8;i++){ st[i]=nondet_u32(); st2[i]=st[i]; }
  for(int i=0;i<64;i++) blk[i]=nondet_u8();
  SHA256_Transform(st, blk, W, S);
  ref_compress(st2, blk);
  for(int i=0;i<8;i++) __CPROVER_assert(st[i]==st2[i], "transform eq");
}
