#include <stddef.h>
#include <stdint.h>
#include <string.h>
#include "getopt.h"
int atexit(void (*f)(void)){ return 0; }
char nondet_char(void); int nondet_int(void);
#ifndef NARG
#define NARG 3
#endif
#ifndef SLEN
#define SLEN 3
#endif
static char A[NARG][SLEN+1];
static size_t seq[8]; static const char *args[8]; static int nseq;
void harness(void){
  char *argv[NARG+2]; static char prog[]="p"; argv[0]=prog;
  int argc = nondet_int(); __CPROVER_assume(argc>=1 && argc<=NARG+1);
  for(int i=0;i<NARG;i++){ for(int j=0;j<SLEN;j++){ char c=nondet_char(); __CPROVER_assume(c=='-'||c=='a'||c=='b'||c=='='||c=='x'||c==0); A[i][j]=c; } A[i][SLEN]=0; argv[i+1]=A[i]; }
  argv[argc]=NULL;
  const char *ch = getopt(argc, argv);
  __CPROVER_assert(ch==GETOPT_DUMMY, "first call returns dummy");
  /* what the GETOPT_* macros do on the initialisation pass, slots = line offsets */
  getopt_setrange(5);
  getopt_register_opt("-a", 0, 0);
  getopt_register_opt("-b", 1, 1);
  getopt_register_opt("--ab", 2, 0);
  getopt_register_missing(3);
  getopt_initialized = 1;
  while ((ch = getopt(argc, argv)) != NULL) {
    size_t k = getopt_lookup(ch);
    __CPROVER_assert(nseq<7,"bounded number of options");
    seq[nseq]=k; args[nseq]=optarg; nseq++;
    if (k==1) __CPROVER_assert(optarg!=NULL, "OPTARG label has an argument");
  }
  __CPROVER_assert(optind>=1 && optind<=argc, "optind in range");
#ifdef WITNESS
  __CPROVER_assert(!(nseq==2 && seq[0]==1 && seq[1]==2), "witness");
#endif
}
