#include <stdint.h>
#include <string.h>
#include "sha1.c"
static uint32_t rotl(uint32_t x, unsigned n){ return (x << n) | (x >> (32-n)); }
static void ref_sha1(uint32_t H[5], const uint8_t M[64]){
  uint32_t W[80]; for(int t=0;t<16;t++) W[t]=((uint32_t)M[4*t]<<24)|((uint32_t)M[4*t+1]<<16)|((uint32_t)M[4*t+2]<<8)|M[4*t+3];
  for(int t=16;t<80;t++) W[t]=rotl(W[t-3]^W[t-8]^W[t-14]^W[t-16],1);
  uint32_t a=H[0],b=H[1],c=H[2],d=H[3],e=H[4];
  for(int t=0;t<80;t++){ uint32_t f,k;
    if(t<20){ f=(b&(c^d))^d; k=0x5A827999; } else if(t<40){ f=b^c^d; k=0x6ED9EBA1; } else if(t<60){ f=(b&(c|d))|(c&d); k=0x8F1BBCDC; } else { f=b^c^d; k=0xCA62C1D6; }
    uint32_t T=rotl(a,5)+f+e+W[t]+k; e=d; d=c; c=rotl(b,30); b=a; a=T; }
  H[0]+=a;H[1]+=b;H[2]+=c;H[3]+=d;H[4]+=e;
}
uint32_t nondet_u32(void); uint8_t nondet_u8(void);
void harness(void){ uint32_t s1[5],s2[5]; uint8_t blk[64];
  for(int i=0;i<5;i++) s1[i]=s2[i]=nondet_u32(); for(int i=0;i<64;i++) blk[i]=nondet_u8();
  SHA1_Transform(s1,blk); ref_sha1(s2,blk);
  for(int i=0;i<5;i++) __CPROVER_assert(s1[i]==s2[i],"sha1 eq"); }
