#include <stdio.h>
#include <string.h>
#include <stdint.h>
#include "json.h"
int main(int argc,char**argv){
 const char*t[]={"{\"k\":{\"a\":1, \"b\":2}, \"x\":5}","{\"k\":[1, 2],\"x\":5}","{\"k\":[1,2],\"x\":5}", "{\"k\":{\"a\":1,\"b\":2},\"x\":5}"};
 for(int i=0;i<4;i++){const uint8_t*b=(const uint8_t*)t[i];const uint8_t*e=b+strlen(t[i]);const uint8_t*r=json_find(b,e,"x");printf("%s -> %s\n",t[i],r==e?"END":(const char*)r);}
}
