#ifndef VERIF_EMMINTRIN_H
#define VERIF_EMMINTRIN_H
#include <stdint.h>
#include <string.h>
/* Model of the SSE2 subset used by libcperciva; lane layout little-endian: d[0] is bits 31:0 */
typedef struct { uint32_t d[4]; } __m128i;
typedef struct { uint32_t f[4]; } __m128;   /* raw bit patterns only */
#define _MM_SHUFFLE(z,y,x,w) (((z)<<6)|((y)<<4)|((x)<<2)|(w))
static inline __m128i _mm_loadu_si128(const __m128i *p){ __m128i r; const uint8_t *b=(const uint8_t*)p; for(int i=0;i<4;i++) r.d[i]=(uint32_t)b[4*i]|((uint32_t)b[4*i+1]<<8)|((uint32_t)b[4*i+2]<<16)|((uint32_t)b[4*i+3]<<24); return r; }
static inline void _mm_storeu_si128(__m128i *p, __m128i a){ uint8_t *b=(uint8_t*)p; for(int i=0;i<4;i++){ b[4*i]=a.d[i]&0xff; b[4*i+1]=(a.d[i]>>8)&0xff; b[4*i+2]=(a.d[i]>>16)&0xff; b[4*i+3]=(a.d[i]>>24)&0xff; } }
static inline __m128i _mm_or_si128(__m128i a, __m128i b){ __m128i r; for(int i=0;i<4;i++) r.d[i]=a.d[i]|b.d[i]; return r; }
static inline __m128i _mm_xor_si128(__m128i a, __m128i b){ __m128i r; for(int i=0;i<4;i++) r.d[i]=a.d[i]^b.d[i]; return r; }
static inline __m128i _mm_add_epi32(__m128i a, __m128i b){ __m128i r; for(int i=0;i<4;i++) r.d[i]=a.d[i]+b.d[i]; return r; }
static inline __m128i _mm_slli_epi32(__m128i a, int n){ __m128i r; for(int i=0;i<4;i++) r.d[i]= n>31?0:a.d[i]<<n; return r; }
static inline __m128i _mm_srli_epi32(__m128i a, int n){ __m128i r; for(int i=0;i<4;i++) r.d[i]= n>31?0:a.d[i]>>n; return r; }
static inline __m128i _mm_slli_epi16(__m128i a, int n){ __m128i r; for(int i=0;i<4;i++){ uint32_t lo=a.d[i]&0xffff, hi=a.d[i]>>16; lo = n>15?0:(lo<<n)&0xffff; hi = n>15?0:(hi<<n)&0xffff; r.d[i]=lo|(hi<<16);} return r; }
static inline __m128i _mm_srli_epi16(__m128i a, int n){ __m128i r; for(int i=0;i<4;i++){ uint32_t lo=a.d[i]&0xffff, hi=a.d[i]>>16; lo = n>15?0:(lo>>n); hi = n>15?0:(hi>>n); r.d[i]=lo|(hi<<16);} return r; }
static inline __m128i _mm_srli_epi64(__m128i a, int n){ __m128i r; for(int i=0;i<2;i++){ uint64_t q=((uint64_t)a.d[2*i+1]<<32)|a.d[2*i]; q = n>63?0:q>>n; r.d[2*i]=(uint32_t)q; r.d[2*i+1]=(uint32_t)(q>>32);} return r; }
static inline __m128i _mm_shuffle_epi32(__m128i a, int imm){ __m128i r; for(int i=0;i<4;i++) r.d[i]=a.d[(imm>>(2*i))&3]; return r; }
static inline __m128i _mm_shufflelo_epi16(__m128i a, int imm){ uint16_t w[4]={a.d[0]&0xffff,a.d[0]>>16,a.d[1]&0xffff,a.d[1]>>16}; __m128i r=a; uint16_t o[4]; for(int i=0;i<4;i++) o[i]=w[(imm>>(2*i))&3]; r.d[0]=o[0]|((uint32_t)o[1]<<16); r.d[1]=o[2]|((uint32_t)o[3]<<16); return r; }
static inline __m128i _mm_shufflehi_epi16(__m128i a, int imm){ uint16_t w[4]={a.d[2]&0xffff,a.d[2]>>16,a.d[3]&0xffff,a.d[3]>>16}; __m128i r=a; uint16_t o[4]; for(int i=0;i<4;i++) o[i]=w[(imm>>(2*i))&3]; r.d[2]=o[0]|((uint32_t)o[1]<<16); r.d[3]=o[2]|((uint32_t)o[3]<<16); return r; }
static inline __m128i _mm_slli_si128(__m128i a, int n){ uint8_t b[16], o[16]; memcpy(b,&a,16); for(int i=0;i<16;i++) o[i]= (i-n>=0 && n<16)? b[i-n]:0; __m128i r; memcpy(&r,o,16); return r; }
static inline __m128i _mm_srli_si128(__m128i a, int n){ uint8_t b[16], o[16]; memcpy(b,&a,16); for(int i=0;i<16;i++) o[i]= (i+n<16)? b[i+n]:0; __m128i r; memcpy(&r,o,16); return r; }
static inline __m128 _mm_castsi128_ps(__m128i a){ __m128 r; for(int i=0;i<4;i++) r.f[i]=a.d[i]; return r; }
static inline __m128i _mm_castps_si128(__m128 a){ __m128i r; for(int i=0;i<4;i++) r.d[i]=a.f[i]; return r; }
static inline __m128 _mm_move_ss(__m128 a, __m128 b){ __m128 r=a; r.f[0]=b.f[0]; return r; }
#endif
