#include <stddef.h>
#include <stdint.h>
#include "events_network.c"
/* ---- stubs ---- */
#define NREC 8
struct eventrec { int (*func)(void *); void *cookie; };
static struct eventrec POOL[NREC]; static int LIVE[NREC];
struct eventrec * events_mkrec(int (*f)(void *), void *c){ for(int i=0;i<NREC;i++) if(!LIVE[i]){ LIVE[i]=1; POOL[i].func=f; POOL[i].cookie=c; return &POOL[i]; } return NULL; }
void events_freerec(struct eventrec *r){ int i = (int)(r-POOL); __CPROVER_assert(i>=0&&i<NREC&&LIVE[i],"free of live rec"); LIVE[i]=0; }
void events_network_selectstats_startclock(void){} void events_network_selectstats_stopclock(void){} void events_network_selectstats_select(void){}
void libcperciva_warn(const char *f, ...){} void libcperciva_warnx(const char *f, ...){}
int atexit(void (*f)(void)){ return 0; }
int nondet_int(void); size_t nondet_size(void); short nondet_short(void);
#ifndef NS
#define NS 3
#endif
static int ghost_ready[NS][2]; /* polled ready since registration */
static int ghost_huperr[NS];
static struct socketrec * SR(size_t i){ return socketlist_get(S,i); }
static int inv(void){
  if (socketlist_getsize(S) != NS) return 0;
  if (nfds > NS || nfds > fds_alloc) return 0;
  for (size_t i=0;i<NS;i++){ struct socketrec *s=SR(i);
    if (s->pollpos != (size_t)(-1)) { if (s->pollpos >= nfds) return 0; if (fds[s->pollpos].fd != (int)i) return 0; }
    if ((s->reader||s->writer) && s->pollpos==(size_t)(-1)) return 0;
    if (!s->reader && !s->writer && s->pollpos!=(size_t)(-1)) return 0;
    if (s->pollpos != (size_t)(-1)) {
      if ((s->reader!=NULL) != ((fds[s->pollpos].events & POLLIN)!=0)) return 0;
      if ((s->writer!=NULL) != ((fds[s->pollpos].events & POLLOUT)!=0)) return 0;
      if (fds[s->pollpos].events & ~(POLLIN|POLLOUT)) return 0;
    }
    if (s->reader){ int k=(int)(s->reader-POOL); if(k<0||k>=NREC||!LIVE[k]) return 0; }
    if (s->writer){ int k=(int)(s->writer-POOL); if(k<0||k>=NREC||!LIVE[k]) return 0; if (s->writer==s->reader) return 0; }
  }
  for (size_t j=0;j<nfds;j++){ if (fds[j].fd<0||fds[j].fd>=NS) return 0; if (SR((size_t)fds[j].fd)->pollpos!=j) return 0;
    if (fds[j].revents & (POLLIN|POLLOUT) & ~fds[j].events) return 0;
    if (fds[j].revents & ~(POLLIN|POLLOUT|POLLERR|POLLHUP)) return 0;
    if (fds[j].revents != 0 && !(j <= fdscanpos)) return 0;
    if ((fds[j].revents & POLLIN) && !ghost_ready[fds[j].fd][0]) return 0;
    if ((fds[j].revents & POLLOUT) && !ghost_ready[fds[j].fd][1]) return 0;
    if ((fds[j].revents & (POLLERR|POLLHUP)) && !ghost_huperr[fds[j].fd]) return 0;
  }
  /* distinct records across sockets */
  for (size_t i=0;i<NS;i++) for (size_t k=i+1;k<NS;k++){ struct socketrec *a=SR(i),*b=SR(k);
    if (a->reader && (a->reader==b->reader||a->reader==b->writer)) return 0;
    if (a->writer && (a->writer==b->reader||a->writer==b->writer)) return 0; }
  return 1;
}
static void mkstate(void){
  S = socketlist_init(NS); __CPROVER_assume(S!=NULL);
  fds_alloc = 4; fds = malloc(fds_alloc*sizeof(struct pollfd)); __CPROVER_assume(fds!=NULL);
  nfds = nondet_size(); fdscanpos = nondet_size();
  for (int i=0;i<NREC;i++) LIVE[i]=nondet_int()&1;
  for (size_t i=0;i<NS;i++){ struct socketrec *s=SR(i); int a=nondet_int(), b=nondet_int();
    s->reader = (a>=0&&a<NREC)? &POOL[a]:NULL; s->writer=(b>=0&&b<NREC)? &POOL[b]:NULL; s->pollpos=nondet_size();
    ghost_ready[i][0]=nondet_int()&1; ghost_ready[i][1]=nondet_int()&1; ghost_huperr[i]=nondet_int()&1; }
  for (size_t j=0;j<4;j++){ fds[j].fd=nondet_int(); fds[j].events=nondet_short(); fds[j].revents=nondet_short(); }
  __CPROVER_assume(inv());
}
void h_cancel(void){ mkstate(); int s=nondet_int(), op=nondet_int();
  __CPROVER_assume(s>=-1 && s<=NS);
  int had = (s>=0&&s<NS&&(op==EVENTS_NETWORK_OP_READ? SR(s)->reader!=NULL : op==EVENTS_NETWORK_OP_WRITE? SR(s)->writer!=NULL:0));
  int rc = events_network_cancel(s, op);
  __CPROVER_assert((rc==0)==had, "cancel succeeds iff registered");
  if (rc==0) ghost_ready[s][op==EVENTS_NETWORK_OP_READ?0:1]=0;
  __CPROVER_assert(inv(), "invariant after cancel");
#ifdef WITNESS
  __CPROVER_assert(!(rc==0 && nfds==2), "witness");
#endif
}
void h_get(void){ mkstate();
  struct eventrec *r = events_network_get();
  if (r){ int k=(int)(r-POOL); __CPROVER_assert(k>=0&&k<NREC&&LIVE[k],"returned rec live");
    for (size_t i=0;i<NS;i++) __CPROVER_assert(SR(i)->reader!=r && SR(i)->writer!=r, "slot cleared before return"); }
  /* after ERR/HUP conversion revents may carry IN/OUT justified by huperr: weaken ghost */
  for (size_t i=0;i<NS;i++) if (ghost_huperr[i]) { ghost_ready[i][0]=ghost_ready[i][1]=1; }
  __CPROVER_assert(inv(), "invariant after get");
#ifdef WITNESS
  __CPROVER_assert(!(r && nfds==1), "witness");
#endif
}
