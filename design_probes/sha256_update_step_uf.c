#include <stdint.h>
#include <string.h>
#include "sha256.c"
uint32_t nondet_u32(void); uint8_t nondet_u8(void); size_t nondet_size(void); uint64_t nondet_u64(void);
#ifndef MAXLEN
#define MAXLEN 20
#endif
static int ncalls; static uint8_t LB[4][64]; static uint32_t LS[4][8], LO[4][8];
void uf_transform(uint32_t state[8], const uint8_t block[64], uint32_t W[64], uint32_t S[8]){
  __CPROVER_assert(ncalls < 4, "log cap");
  for (int i=0;i<8;i++) LS[ncalls][i]=state[i];
  for (int i=0;i<64;i++) LB[ncalls][i]=block[i];
  for (int i=0;i<8;i++) { LO[ncalls][i]=nondet_u32(); state[i]=LO[ncalls][i]; }
  ncalls++;
}
void harness(void){
  SHA256_CTX ctx; uint32_t tmp32[72];
  uint8_t in[MAXLEN]; size_t len = nondet_size();
  __CPROVER_assume(len <= MAXLEN);
  uint32_t st0[8]; uint8_t oldbuf[64];
  for (int i=0;i<8;i++) st0[i]=ctx.state[i]=nondet_u32();
  uint64_t c0 = nondet_u64(); __CPROVER_assume((c0 & 7) == 0);
  __CPROVER_assume(c0 <= 0xffffffffffffffffULL - 8*MAXLEN);
  ctx.count = c0;
  for (int i=0;i<64;i++) oldbuf[i]=ctx.buf[i]=nondet_u8();
  for (int i=0;i<MAXLEN;i++) in[i]=nondet_u8();
  SHA256_Update_internal(&ctx, in, len, tmp32);
  size_t r0 = (c0 >> 3) & 0x3f;
  size_t nb = (r0+len)/64;
  __CPROVER_assert(ncalls == nb, "number of compression calls");
  __CPROVER_assert(ctx.count == c0 + 8*(uint64_t)len, "count");
  /* pick one arbitrary (call j, byte i) and check it: universal generalisation */
  size_t j = nondet_size(), i = nondet_size();
  __CPROVER_assume(j < nb && j < 4 && i < 64);
  size_t idx = 64*j+i;
  uint8_t expect = idx<r0 ? oldbuf[idx] : in[idx-r0];
  __CPROVER_assert(LB[j][i] == expect, "block byte");
  size_t w = nondet_size(); __CPROVER_assume(w<8);
  __CPROVER_assert(LS[j][w] == (j==0 ? st0[w] : LO[j-1][w]), "chaining");
  if (nb>0) __CPROVER_assert(ctx.state[w] == LO[nb-1][w], "final state"); else __CPROVER_assert(ctx.state[w]==st0[w], "state untouched");
  size_t k = nondet_size(); __CPROVER_assume(k < (r0+len)%64);
  size_t idk = 64*nb+k;
  __CPROVER_assert(ctx.buf[k] == (idk<r0 ? oldbuf[idk] : in[idk-r0]), "pending byte");
}
