#include <stdlib.h>
#include <stdint.h>
#include <string.h>
void checked_free(void *p){ if(p){ size_t n=__CPROVER_OBJECT_SIZE(p); size_t i; __CPROVER_assume(i<n); __CPROVER_assert(((uint8_t*)p)[i]==0,"zero at free"); } __CPROVER_deallocate(p); }
void lib_release(uint8_t *k, int wipe){ if(wipe) memset(k,0,8); free(k); }
int nondet_int(void);
void h_free(void){ uint8_t *k=malloc(8); __CPROVER_assume(k); for(int i=0;i<8;i++) k[i]=i+1; lib_release(k, WIPE); }
void h_realloc(void){ uint8_t *p=malloc(4); if(!p) return; p[0]=42; uint8_t *q=realloc(p,8); if(q==NULL){ __CPROVER_assert(p[0]==42,"orig intact after failed realloc"); free(p);} else { __CPROVER_assert(q[0]==42,"copied"); free(q);} }
void h_bv(void){ uint8_t a[256], m[256]; for(int i=0;i<256;i++){ m[i]= (i<8||i>=248)?0xff:(uint8_t)(i*7+1); }
  unsigned __CPROVER_bitvector[2048] A=0, M=0; for(int i=0;i<256;i++){ A=(A<<8)|a[i]; M=(M<<8)|m[i]; }
  int r = memcmp(a,m,256)>=0 ? -1:0; __CPROVER_assert((r==0)==(A<M),"sanity iff below"); }
