#!/usr/bin/env python3
"""
check.py -- decide one property of /repo by bounded symbolic execution of the
real sources (CBMC) with a SAT/SMT portfolio.  See /verif/DESIGN.md.

usage: bin/check <Cnn> [--tier quick|thorough] [--only NAME[,NAME..]] [--jobs N]
       bin/check <Cnn> --replay /verif/replay/<dir>

Exit status: 0 property held on everything explored (known findings are
printed as KNOWN-FINDING lines); 1 a violation was found (VIOLATION line);
2 the check itself is broken or inconclusive (vacuous obligation, timeout on
every back end, model self-test failed).
"""
import argparse
import importlib.util
import json
import os
import re
import resource
import shutil
import signal
import subprocess
import sys
import threading
import time
from concurrent.futures import ThreadPoolExecutor

VERIF = os.path.dirname(os.path.dirname(os.path.abspath(__file__)))
REPO = os.environ.get("VERIF_REPO", "/repo")
BUILD = os.path.join(VERIF, "build")
REPLAY = os.path.join(VERIF, "replay")

IDIRS = ["alg", "aws", "cpusupport", "crypto", "datastruct", "events", "http",
         "netbuf", "network", "network_ssl", "util", "external/queue"]
POSIX_DEFS = ["-D_POSIX_C_SOURCE=200809L", "-D_XOPEN_SOURCE=700"]
Z3_TACTIC = "(check-sat-using (then (! simplify :sort_sums true) solve-eqs (! simplify :sort_sums true) smt))"
MEM_LIMIT = int(os.environ.get("VERIF_MEM_GB", "28")) << 30

print_lock = threading.Lock()


def say(*a):
    with print_lock:
        print(*a, flush=True)


# --------------------------------------------------------------------------
# process running with timeout, cancellation, rusage
# --------------------------------------------------------------------------
class Proc:
    def __init__(self, cmd, out_path, timeout, cancel=None, cwd=None, env=None, stdin=None, limit=True):
        self.limit = limit
        self.cmd, self.out_path, self.timeout = cmd, out_path, timeout
        self.cancel, self.cwd, self.env, self.stdin = cancel, cwd, env, stdin
        self.rc = None
        self.wall = 0.0
        self.rss_mb = 0
        self.timed_out = False
        self.cancelled = False

    def run(self):
        def pre():
            os.setsid()
            if self.limit:
                resource.setrlimit(resource.RLIMIT_AS, (MEM_LIMIT, MEM_LIMIT))
        t0 = time.time()
        with open(self.out_path, "wb") as out:
            p = subprocess.Popen(self.cmd, stdout=out, stderr=subprocess.STDOUT,
                                 cwd=self.cwd, env=self.env, preexec_fn=pre,
                                 stdin=subprocess.DEVNULL)
            while True:
                try:
                    pid, status, ru = os.wait4(p.pid, os.WNOHANG)
                except ChildProcessError:
                    pid, status, ru = p.pid, 0, None
                if pid != 0:
                    break
                if time.time() - t0 > self.timeout:
                    self.timed_out = True
                elif self.cancel is not None and self.cancel.is_set():
                    self.cancelled = True
                if self.timed_out or self.cancelled:
                    try:
                        os.killpg(p.pid, signal.SIGKILL)
                    except ProcessLookupError:
                        pass
                    pid, status, ru = os.wait4(p.pid, 0)
                    break
                time.sleep(0.05)
            p.returncode = 0
        self.wall = time.time() - t0
        if ru is not None:
            self.rss_mb = ru.ru_maxrss // 1024
        if os.WIFEXITED(status):
            self.rc = os.WEXITSTATUS(status)
        else:
            self.rc = -os.WTERMSIG(status) if os.WIFSIGNALED(status) else -1
        return self


def sh(cmd, out_path, timeout=600, cwd=None, env=None, limit=True):
    return Proc(cmd, out_path, timeout, cwd=cwd, env=env, limit=limit).run()


# --------------------------------------------------------------------------
# repo function names (BSD style: name starts the line of a definition)
# --------------------------------------------------------------------------
_repo_funcs = None


def repo_functions():
    global _repo_funcs
    if _repo_funcs is None:
        s = {}
        pat = re.compile(r"^([A-Za-z_][A-Za-z0-9_]*)\(", re.M)
        for d in IDIRS:
            dd = os.path.join(REPO, d)
            if not os.path.isdir(dd):
                continue
            for f in sorted(os.listdir(dd)):
                if f.endswith((".c", ".h")):
                    try:
                        txt = open(os.path.join(dd, f), errors="replace").read()
                    except OSError:
                        continue
                    for m in pat.finditer(txt):
                        s.setdefault(m.group(1), d + "/" + f)
        _repo_funcs = s
    return _repo_funcs


# --------------------------------------------------------------------------
# building
# --------------------------------------------------------------------------
def cpu_config(wd, cpu):
    p = os.path.join(wd, "vh-cpusupport-config.h")
    with open(p, "w") as f:
        f.write("/* generated: CPUSUPPORT configuration encoded by this obligation */\n")
        for c in cpu:
            f.write("#define CPUSUPPORT_%s 1\n" % c)
    return p


def common_cflags(ob, wd, hdir):
    fl = list(POSIX_DEFS)
    fl += ["-DCPUSUPPORT_CONFIG_FILE=\"vh-cpusupport-config.h\"",
           "-DAPISUPPORT_CONFIG_FILE=\"apisupport-config.h\""]
    fl += ["-I" + wd]
    for m in ob.get("model_inc", []):
        fl += ["-I" + os.path.join(VERIF, "models", m)]
    fl += ["-I" + os.path.join(VERIF, "engine"), "-I" + os.path.join(VERIF, "models"),
           "-I" + os.path.join(VERIF, "refs"), "-I" + hdir, "-I" + REPO]
    fl += ["-I" + os.path.join(REPO, d) for d in IDIRS]
    fl += ["-D" + d for d in ob.get("defs", [])]
    return fl


def build_goto(ob, wd, hdir, extra_defs, out):
    cmd = ["goto-cc", "-o", out, "-DVH_CBMC"] + common_cflags(ob, wd, hdir) + ["-D" + d for d in extra_defs]
    cmd += [os.path.join(hdir, ob["harness"])]
    cmd += [os.path.join(REPO, s) for s in ob.get("srcs", [])]
    cmd += [os.path.join(VERIF, s) for s in ob.get("vsrcs", [])]
    r = sh(cmd, out + ".build.log", 300)
    if r.rc != 0:
        return False, open(out + ".build.log", errors="replace").read()[-3000:]
    cur = out
    if ob.get("replace"):
        nxt = out + ".rc"
        cmd = ["goto-instrument"]
        cmd += ["--replace-calls", ",".join(ob["replace"]) if False else ob["replace"][0]]
        # goto-instrument accepts repeated --replace-calls a:b
        cmd = ["goto-instrument"]
        for rc_ in ob["replace"]:
            cmd += ["--replace-calls", rc_]
        cmd += [cur, nxt]
        r = sh(cmd, nxt + ".log", 300)
        if r.rc != 0:
            return False, open(nxt + ".log", errors="replace").read()[-3000:]
        os.replace(nxt, cur)
    for gi in ob.get("instrument", []):
        nxt = out + ".gi"
        r = sh(["goto-instrument"] + gi + [cur, nxt], nxt + ".log", 300)
        if r.rc != 0:
            return False, open(nxt + ".log", errors="replace").read()[-3000:]
        os.replace(nxt, cur)
    return True, ""


def resolve_loops(ob, gb, wd):
    """unwindset entries may name a loop as func#k:N (k-th loop of func in source
    line order, 0-based) -- resolved against goto-instrument --show-loops so that
    the spec does not depend on CBMC's internal numbering"""
    us = ob.get("unwindset", [])
    if not any("#" in u for u in us):
        return us, None
    lp = os.path.join(wd, "loops.txt")
    sh(["goto-instrument", "--show-loops", gb], lp, 120)
    txt = open(lp, errors="replace").read()
    loops = {}
    for m in re.finditer(r"Loop ([A-Za-z0-9_$.]+)\.(\d+):\n\s+file (\S+) line (\d+)", txt):
        loops.setdefault(m.group(1), []).append((int(m.group(4)), int(m.group(2))))
    out = []
    for u in us:
        if "#" not in u:
            out.append(u)
            continue
        fk, n = u.rsplit(":", 1)
        f, k = fk.split("#")
        optional = k.endswith("?")   # func#k?:N -- skip silently when the loop does not exist in this configuration
        k = k.rstrip("?")
        if f not in loops:   # public names may or may not carry the libcperciva_ prefix (header #defines)
            alt = f[len("libcperciva_"):] if f.startswith("libcperciva_") else "libcperciva_" + f
            if alt in loops:
                f = alt
        ls = sorted(loops.get(f, []))
        if int(k) >= len(ls) and optional:
            continue
        if int(k) >= len(ls):
            return None, "loop %s not found (function has %d loops)" % (fk, len(ls))
        out.append("%s.%d:%s" % (f, ls[int(k)][1], n))
    return out, None


def cbmc_base(ob, gb):
    cmd = ["cbmc", gb, "--function", ob["entry"], "--unwinding-assertions",
           "--drop-unused-functions"]
    if ob.get("unwind"):
        cmd += ["--unwind", str(ob["unwind"])]
    if ob.get("unwindset_resolved", ob.get("unwindset")):
        cmd += ["--unwindset", ",".join(ob.get("unwindset_resolved", ob.get("unwindset")))]
    if ob.get("mmf"):
        cmd += ["--malloc-may-fail", "--malloc-fail-null"]
    else:
        cmd += ["--no-malloc-may-fail"]
    cmd += ob.get("flags", [])
    return cmd


# --------------------------------------------------------------------------
# result parsing
# --------------------------------------------------------------------------
def parse_json_results(path):
    """returns (props: list of dict(property,status,description,loc), status, runtimes)"""
    try:
        data = json.load(open(path, errors="replace"))
    except Exception as e:
        return None, "parse-error: %s" % e, {}
    props, status, msgs = [], None, []
    for x in data:
        if not isinstance(x, dict):
            continue
        if "result" in x:
            for r in x["result"]:
                sl = r.get("sourceLocation", {})
                props.append(dict(property=r.get("property"), status=r.get("status"),
                                  description=r.get("description", ""),
                                  loc="%s:%s %s" % (sl.get("file", "?"), sl.get("line", "?"), sl.get("function", "")),
                                  trace=r.get("trace")))
        if "cProverStatus" in x:
            status = x["cProverStatus"]
        if x.get("messageType") == "ERROR":
            msgs.append(x.get("messageText", ""))
    if status is None and msgs:
        status = "error: " + " | ".join(msgs)[:500]
    return props, status, {}


def solver_seconds(path):
    t = 0.0
    try:
        txt = open(path, errors="replace").read()
    except OSError:
        return 0.0
    for m in re.finditer(r"Runtime (?:decision procedure|Solver): ([0-9.]+)s", txt):
        t += float(m.group(1))
    return t


def tape_from_trace(trace):
    tape = []
    for s in trace or []:
        if s.get("stepType") == "assignment" and s.get("lhs") == "vh_tape" and \
                s.get("sourceLocation", {}).get("function") == "nd_u64":
            v = s.get("value", {})
            b = v.get("binary")
            if b is not None:
                tape.append(int(b, 2))
            else:
                d = re.sub(r"[a-zA-Z]+$", "", str(v.get("data", "0")))
                tape.append(int(d) & ((1 << 64) - 1))
    return tape


# --------------------------------------------------------------------------
# back ends
# --------------------------------------------------------------------------
class Outcome:
    def __init__(self, backend):
        self.backend = backend
        self.verdict = None  # "holds" | "cex" | "vacuous" | None (inconclusive)
        self.detail = ""
        self.wall = 0.0
        self.solver_s = 0.0
        self.rss_mb = 0
        self.props = None
        self.failing = []
        self.nprops = 0
        self.queries = 0


def judge_props(props, want_witness):
    """-> verdict, failing list, witness_ok"""
    failing = [p for p in props if p["status"] == "FAILURE" and p["description"] != "WITNESS"]
    wit = [p for p in props if p["description"] == "WITNESS"]
    errs = [p for p in props if p["status"] not in ("SUCCESS", "FAILURE")]
    if failing:
        return "cex", failing
    if errs:
        return None, errs
    if want_witness:
        if not wit:
            return "vacuous", []
        if any(p["status"] == "FAILURE" for p in wit):
            return "holds", []
        return "vacuous", wit
    return "holds", []


def run_sat(ob, gb, wd, solver, cancel, want_witness):
    o = Outcome(solver)
    out = os.path.join(wd, "out.%s.json" % solver)
    cmd = cbmc_base(ob, gb) + ["--json-ui"]
    if solver == "cadical":
        cmd += ["--sat-solver", "cadical"]
    elif solver == "minisat":
        pass
    elif solver == "kissat":
        cmd += ["--external-sat-solver", "kissat"]
    elif solver == "z3":
        cmd += ["--z3"]
    elif solver == "cvc5":
        cmd += ["--cvc5"]
    elif solver == "cvc5int":
        cmd += ["--cvc5", "--slice-formula"]
    env = dict(os.environ)
    # temporary files of the back end (cbmc writes the CNF for an external SAT solver to $TMPDIR and leaves it there when
    # the run is cancelled: 14 GB had piled up in /tmp) go into the obligation's work directory, which is removed afterwards
    tmpd = os.path.join(wd, "tmp." + solver)
    os.makedirs(tmpd, exist_ok=True)
    env["TMPDIR"] = tmpd
    if solver == "cvc5int":
        env["PATH"] = os.path.join(VERIF, "engine", "shim-cvc5int") + ":" + env["PATH"]
    p = Proc(cmd, out, ob.get("timeout", 120), cancel, env=env).run()
    shutil.rmtree(tmpd, ignore_errors=True)
    o.wall, o.rss_mb = p.wall, p.rss_mb
    o.solver_s = solver_seconds(out)
    if p.timed_out:
        o.detail = "timeout %ds" % ob.get("timeout", 120)
        return o
    if p.cancelled:
        o.detail = "cancelled"
        return o
    props, status, _ = parse_json_results(out)
    if props is None or (status or "").startswith(("error", "parse-error")) or not props:
        o.detail = "cbmc rc=%s status=%s" % (p.rc, status)
        return o
    o.props = props
    o.nprops = len(props)
    o.queries = 1
    o.verdict, o.failing = judge_props(props, want_witness)
    if o.verdict is None:
        o.detail = "property status: " + ", ".join("%s=%s" % (x["property"], x["status"]) for x in o.failing[:5])
    return o


def run_z3tactic(ob, gb, wd, cancel):
    o = Outcome("z3tactic")
    smt = os.path.join(wd, "vc.smt2")
    log = os.path.join(wd, "out.smt2gen.log")
    t = ob.get("timeout", 120)
    p = Proc(cbmc_base(ob, gb) + ["--smt2", "--outfile", smt], log, t, cancel).run()
    o.wall, o.rss_mb = p.wall, p.rss_mb
    if p.timed_out or p.cancelled or not os.path.exists(smt):
        o.detail = "smt2 export: " + ("timeout" if p.timed_out else "cancelled" if p.cancelled else "rc=%s" % p.rc)
        return o
    txt = open(smt, errors="replace").read()
    if "(check-sat)" not in txt:
        o.detail = "no check-sat in export (no properties?)"
        return o
    head = txt.split("(check-sat)")[0]
    with open(smt, "w") as f:
        f.write(head + Z3_TACTIC + "\n")
    out = os.path.join(wd, "out.z3tactic.txt")
    p2 = Proc(["z3-new", smt], out, max(5, t - p.wall), cancel).run()
    o.wall += p2.wall
    o.solver_s = p2.wall
    o.rss_mb = max(o.rss_mb, p2.rss_mb)
    o.queries = 1
    res = open(out, errors="replace").read()
    if "(error" in res:
        o.detail = "z3 error: " + res[:200]
        return o
    first = res.strip().split("\n")[0].strip() if res.strip() else ""
    if first == "unsat":
        o.verdict = "holds"
    elif first == "sat":
        o.verdict = "cex-nomodel"
    else:
        o.detail = "z3: %s" % ("timeout" if p2.timed_out else first[:80])
    return o


# --------------------------------------------------------------------------
# replay
# --------------------------------------------------------------------------
def rewrite_calls(text, repl):
    """textual twin of goto-instrument --replace-calls for the native replay:
    every call `old(` that is not the definition (name at column 0) -> `new(`"""
    for rc_ in repl:
        old, new = rc_.split(":")
        if old.startswith("libcperciva_"):
            old = old[len("libcperciva_"):]   # sources use the unprefixed name (the header #defines the prefix)
        out = []
        for line in text.split("\n"):
            if re.match(r"^%s\(" % re.escape(old), line) or line.startswith("static "):
                out.append(line)   # the definition itself / a file-scope prototype: left alone
            else:
                out.append(re.sub(r"(?<![A-Za-z0-9_])%s(\s*)\(" % re.escape(old), new + r"\1(", line))
        text = "\n".join(out)
    return text


def make_replay(pid, ob, hdir, wd, failing, tape):
    rd = os.path.join(REPLAY, "%s-%s" % (pid, ob["name"]))
    shutil.rmtree(rd, ignore_errors=True)
    os.makedirs(rd)
    with open(os.path.join(rd, "tape.txt"), "w") as f:
        f.write("\n".join(str(v) for v in tape) + "\n")
    info = dict(property=pid, obligation=ob["name"], entry=ob["entry"],
                failing=[dict(property=p["property"], description=p["description"], loc=p["loc"]) for p in failing],
                tape_len=len(tape), replay_mode=ob.get("replay", "native"))
    # human-readable trace
    tr = failing[0].get("trace") or []
    with open(os.path.join(rd, "trace.txt"), "w") as f:
        f.write("counterexample for %s / %s\n" % (pid, ob["name"]))
        for p in failing:
            f.write("FAILED: [%s] %s at %s\n" % (p["property"], p["description"], p["loc"]))
        f.write("\ninputs drawn (tape, program order): %s\n\n" % tape)
        for s in tr:
            if s.get("hidden"):
                continue
            st = s.get("stepType")
            sl = s.get("sourceLocation", {})
            if st == "assignment":
                v = s.get("value", {})
                f.write("  %s:%s %s = %s\n" % (sl.get("file", "?").split("/")[-1], sl.get("line", "?"), s.get("lhs"), v.get("data", v.get("name"))))
            elif st in ("function-call", "function-return"):
                f.write("  %s %s\n" % (st, s.get("function", {}).get("displayName")))
            elif st == "failure":
                f.write("  FAILURE %s: %s\n" % (s.get("property"), s.get("reason")))
    # native replay build: rewritten copies of the repo sources first on the include path
    srcdir = os.path.join(rd, "src")
    os.makedirs(srcdir)
    repl = ob.get("replace", [])
    native_repl = [r for r in repl if not r.startswith("free:")] + ob.get("native_replace", [])
    copied = []
    if native_repl:
        for d in IDIRS:
            dd = os.path.join(REPO, d)
            for fn in os.listdir(dd) if os.path.isdir(dd) else []:
                if fn.endswith(".c"):
                    txt = open(os.path.join(dd, fn), errors="replace").read()
                    new = rewrite_calls(txt, native_repl)
                    if new != txt:
                        with open(os.path.join(srcdir, fn), "w") as f:
                            f.write(new)
                        copied.append(d + "/" + fn)
    cpu_config(rd, ob.get("cpu", []))
    cfl = common_cflags(ob, rd, hdir)
    cfl = ["-I" + srcdir] + cfl
    srcs = []
    for s in ob.get("srcs", []):
        base = os.path.basename(s)
        srcs.append(os.path.join(srcdir, base) if os.path.exists(os.path.join(srcdir, base)) else os.path.join(REPO, s))
    srcs += [os.path.join(VERIF, s) for s in ob.get("vsrcs", [])]
    cc = ["gcc", "-g", "-O0", "-w", "-fsanitize=address,undefined", "-fno-sanitize-recover=undefined",
          "-DREPLAY", "-DVH_ENTRY=" + ob["entry"]] + ob.get("native_cflags", []) + cfl + \
         [os.path.join(hdir, ob["harness"])] + srcs + ["-o", os.path.join(rd, "replay.bin")] + ob.get("native_libs", [])
    with open(os.path.join(rd, "run.sh"), "w") as f:
        f.write("#!/bin/sh\n# native replay of the solver's counterexample against the real sources\n")
        f.write("cd %s || exit 2\n" % rd)
        f.write(" ".join("'%s'" % c for c in cc) + " || { echo REPLAY-BUILD-FAILED; exit 2; }\n")
        f.write("VH_TAPE=%s/tape.txt ASAN_OPTIONS=detect_leaks=%d ./replay.bin\n" % (rd, 1 if ob.get("leak_check") else 0))
        f.write("rc=$?\n[ $rc -ne 0 ] && [ $rc -ne 3 ] && echo REPRODUCED-EXIT rc=$rc\nexit $rc\n")
    os.chmod(os.path.join(rd, "run.sh"), 0o755)
    status = "model-only"
    if ob.get("replay", "native") == "native":
        r = sh(["/bin/sh", os.path.join(rd, "run.sh")], os.path.join(rd, "replay.log"), 300, limit=False)
        log = open(os.path.join(rd, "replay.log"), errors="replace").read()
        if "REPLAY-BUILD-FAILED" in log:
            status = "replay-build-failed"
        elif "REPRODUCED" in log or "AddressSanitizer" in log or "runtime error" in log or "Assertion" in log:
            status = "reproduced"
        elif "REPLAY-ASSUME-FAILED" in log:
            status = "replay-assume-failed"
        else:
            status = "not-reproduced"
    info["native_replay"] = status
    info["rewritten_sources"] = copied
    with open(os.path.join(rd, "info.json"), "w") as f:
        json.dump(info, f, indent=1)
    return rd, status


# --------------------------------------------------------------------------
# one obligation
# --------------------------------------------------------------------------
SLOT_LOCK = threading.Lock()


def run_obligation(pid, ob, hdir, kf_defs, slots):
    t0 = time.time()
    rec = dict(name=ob["name"], entry=ob["entry"], harness=ob["harness"],
               claim=ob.get("claim", ""), bounds=ob.get("bounds", ""),
               unwind=ob.get("unwind"), unwindset=ob.get("unwindset", []),
               replace_calls=ob.get("replace", []), cpu_config=ob.get("cpu", []),
               stubs=ob.get("stubs", []), backends={}, verdict=None)
    wd = os.path.join(BUILD, pid, ob["name"])
    shutil.rmtree(wd, ignore_errors=True)
    os.makedirs(wd)
    cpu_config(wd, ob.get("cpu", []))
    backends = ob.get("backends", ["cadical"])
    demo = ob.get("kf_demo")
    defs = [d for d in kf_defs if not (demo and d == "KF_" + demo)]
    want_witness = ob.get("witness", True)
    n = min(len(backends) + (1 if want_witness else 0), getattr(slots, "_initial_value", 1))
    # all n slots are taken under one lock: taking them one by one lets several obligations each hold some and wait
    # for more (observed once as a deadlock with --jobs 6: every thread asleep, no solver running)
    with SLOT_LOCK:
        for _ in range(n):
            slots.acquire()
    try:
        gbw = os.path.join(wd, "h.witness.gb")
        ok, err = build_goto(ob, wd, hdir, defs, gbw)
        if not ok:
            rec["verdict"] = "build-error"
            rec["detail"] = err
            return rec
        gbn = os.path.join(wd, "h.nowitness.gb")
        ok, err = build_goto(ob, wd, hdir, defs + ["NOWITNESS"], gbn)
        if not ok:
            rec["verdict"] = "build-error"
            rec["detail"] = err
            return rec
        ob = dict(ob)
        us, err = resolve_loops(ob, gbw, wd)
        if us is None:
            rec["verdict"] = "build-error"
            rec["detail"] = err
            return rec
        ob["unwindset_resolved"] = us
        rec["unwindset_resolved"] = us
        # functions encoded
        lf = os.path.join(wd, "functions.txt")
        sh(["cbmc", gbw, "--function", ob["entry"], "--drop-unused-functions", "--list-goto-functions"], lf, 120)
        names = re.findall(r"^([A-Za-z_][A-Za-z0-9_]*) /\*", open(lf, errors="replace").read(), re.M)
        rf = repo_functions()
        rec["repo_functions_encoded"] = sorted(n_ for n_ in set(names) if n_ in rf or n_.replace("libcperciva_", "") in rf)

        # The property query runs on the NOWITNESS build (one UNSAT query per back end);
        # the reachability witness is a separate SAT query on the witness build, in parallel.
        cancel = threading.Event()
        outcomes = []
        lock = threading.Lock()

        def work(b):
            if b == "witness":
                o = run_witness_only(ob, gbw, wd, cancel)
            elif b == "z3tactic":
                o = run_z3tactic(ob, gbn, wd, cancel)
            else:
                o = run_sat(ob, gbn, wd, b, cancel, False)
            with lock:
                outcomes.append(o)
                if o.verdict == "cex":
                    cancel.set()
                elif o.verdict == "vacuous":
                    pass	# keep the property query running: a change that makes the end of the harness unreachable usually does so by failing a CHECK on the way, and that must be reported as a violation, not as "vacuous"
                else:
                    have_w = (not want_witness) or any(x.backend == "witness" and x.verdict == "holds" for x in outcomes)
                    have_p = any(x.backend != "witness" and x.verdict == "holds" for x in outcomes)
                    if have_w and have_p:
                        cancel.set()
            return o

        jobs_ = list(backends) + (["witness"] if want_witness else [])
        ths = [threading.Thread(target=work, args=(b,)) for b in jobs_]
        for t in ths:
            t.start()
        for t in ths:
            t.join()
        for o in outcomes:
            rec["backends"][o.backend] = dict(verdict=o.verdict, detail=o.detail, wall_s=round(o.wall, 2),
                                             solver_s=round(o.solver_s, 2), rss_mb=o.rss_mb, properties=o.nprops)
        rec["queries"] = sum(o.queries for o in outcomes)
        # merge
        cex = [o for o in outcomes if o.verdict == "cex"]
        vac = [o for o in outcomes if o.verdict == "vacuous"]
        holds_nw = [o for o in outcomes if o.verdict == "holds" and o.backend != "witness"]
        holds_w = []
        wit_ok = [o for o in outcomes if o.backend == "witness" and o.verdict == "holds"]
        cexnm = [o for o in outcomes if o.verdict == "cex-nomodel"]
        if cex and (holds_w or holds_nw):
            rec["verdict"] = "solver-disagreement"
        elif cex:
            o = cex[0]
            rec["verdict"] = "cex"
            rec["failing"] = [dict(property=p["property"], description=p["description"], loc=p["loc"]) for p in o.failing]
            # re-run for a trace of the first failing property
            tr_out = os.path.join(wd, "out.trace.json")
            solver = o.backend if o.backend in ("cadical", "minisat") else "cadical"
            cmd = cbmc_base(ob, gbn) + ["--json-ui", "--trace", "--property", o.failing[0]["property"]]
            if solver == "cadical":
                cmd += ["--sat-solver", "cadical"]
            sh(cmd, tr_out, max(300, ob.get("timeout", 120) * 2))
            props, _, _ = parse_json_results(tr_out)
            tape = []
            fl = o.failing
            if props:
                f2 = [p for p in props if p["status"] == "FAILURE"]
                if f2:
                    tape = tape_from_trace(f2[0].get("trace"))
                    fl = f2 + [p for p in o.failing if p["property"] != f2[0]["property"]]
            rd, st = make_replay(pid, ob, hdir, wd, fl, tape)
            rec["replay"] = rd
            rec["native_replay"] = st
        elif vac:
            rec["verdict"] = "vacuous"
        elif holds_nw and (wit_ok or not want_witness):
            rec["verdict"] = "holds"
            rec["answered_by"] = holds_nw[0].backend
        elif cexnm:
            rec["verdict"] = "inconclusive"
            rec["detail"] = "SMT back end says sat but no SAT back end produced a model in time"
        else:
            rec["verdict"] = "inconclusive"
            rec["detail"] = "; ".join("%s: %s" % (o.backend, o.detail) for o in outcomes)
        return rec
    finally:
        rec["wall_s"] = round(time.time() - t0, 2)
        for _ in range(n):
            slots.release()
        if rec.get("verdict") == "holds" and not os.environ.get("VERIF_KEEP"):
            shutil.rmtree(wd, ignore_errors=True)


def run_witness_only(ob, gbw, wd, cancel=None):
    """reachability of REACHED() alone (a SAT answer, cheap even for kernels)"""
    o = Outcome("witness")
    out = os.path.join(wd, "out.witness.json")
    lp = os.path.join(wd, "props.json")
    sh(cbmc_base(ob, gbw) + ["--show-properties", "--json-ui"], lp, 300)
    wid = []
    try:
        for x in json.load(open(lp, errors="replace")):
            if isinstance(x, dict) and "properties" in x:
                wid = [p["name"] for p in x["properties"] if p.get("description") == "WITNESS"]
    except Exception:
        pass
    if not wid:
        o.verdict = "vacuous"
        o.detail = "no WITNESS property"
        return o
    cmd = cbmc_base(ob, gbw) + ["--json-ui", "--sat-solver", "cadical", "--slice-formula"]
    for w in wid:
        cmd += ["--property", w]
    p = Proc(cmd, out, max(120, ob.get("timeout", 120)), cancel).run()
    o.wall, o.rss_mb, o.queries = p.wall, p.rss_mb, 1
    o.solver_s = solver_seconds(out)
    props, status, _ = parse_json_results(out)
    if props:
        w = [x for x in props if x["description"] == "WITNESS"]
        if any(x["status"] == "FAILURE" for x in w):
            o.verdict = "holds"
        elif w:
            o.verdict = "vacuous"
    if o.verdict is None:
        o.detail = "witness query: %s" % ("timeout" if p.timed_out else status)
    return o


# --------------------------------------------------------------------------
# native self-tests of models and references
# --------------------------------------------------------------------------
def run_selftests(pid, spec, hdir):
    res = []
    for st in getattr(spec, "SELFTESTS", []):
        wd = os.path.join(BUILD, pid, "selftest-" + st["name"])
        shutil.rmtree(wd, ignore_errors=True)
        os.makedirs(wd)
        cpu_config(wd, st.get("cpu", []))
        ob = dict(defs=st.get("defs", []), model_inc=st.get("model_inc", []))
        if st.get("script"):
            r = sh(["python3", os.path.join(VERIF, st["script"])] + st.get("args", []), os.path.join(wd, "run.log"), 600, cwd=wd, limit=False)
            res.append(dict(name=st["name"], ok=r.rc == 0, what=st.get("what", ""),
                            detail=open(os.path.join(wd, "run.log"), errors="replace").read()[-600:].strip()))
            if r.rc == 0:
                shutil.rmtree(wd, ignore_errors=True)
            continue
        exe = os.path.join(wd, "t")
        cmd = ["gcc", "-O1", "-g", "-w"] + st.get("cflags", []) + common_cflags(ob, wd, hdir) + \
              [os.path.join(hdir, s) if not s.startswith("/") else s for s in st["srcs"]] + \
              [os.path.join(REPO, s) for s in st.get("repo_srcs", [])] + ["-o", exe] + st.get("libs", [])
        r = sh(cmd, os.path.join(wd, "build.log"), 300)
        ok = r.rc == 0
        detail = ""
        if ok:
            r = sh([exe] + st.get("args", []), os.path.join(wd, "run.log"), 600, cwd=wd, limit=False)
            ok = r.rc == 0
            detail = open(os.path.join(wd, "run.log"), errors="replace").read()[-400:]
        else:
            detail = open(os.path.join(wd, "build.log"), errors="replace").read()[-1500:]
        res.append(dict(name=st["name"], ok=ok, what=st.get("what", ""), detail=detail.strip()))
        if ok:
            shutil.rmtree(wd, ignore_errors=True)
    return res


# --------------------------------------------------------------------------
def load_spec(pid):
    hdir = os.path.join(VERIF, "harness", pid)
    p = os.path.join(hdir, "spec.py")
    sp = importlib.util.spec_from_file_location("spec_" + pid, p)
    m = importlib.util.module_from_spec(sp)
    sys.path.insert(0, os.path.join(VERIF, "engine"))
    sp.loader.exec_module(m)
    return m, hdir


def known_findings(pid):
    p = os.path.join(VERIF, "known_findings.json")
    try:
        d = json.load(open(p))
    except OSError:
        return []
    return [e for e in d.get("findings", []) if e.get("property") == pid]


def do_replay(path):
    rs = os.path.join(path, "run.sh")
    if not os.path.exists(rs):
        print("no run.sh under", path)
        return 2
    r = subprocess.run(["/bin/sh", rs])
    return r.returncode


def main():
    ap = argparse.ArgumentParser()
    ap.add_argument("pid")
    ap.add_argument("--tier", default=os.environ.get("VERIF_TIER", "quick"), choices=["quick", "thorough"])
    ap.add_argument("--only", default="")
    ap.add_argument("--jobs", type=int, default=int(os.environ.get("VERIF_JOBS", "16")))
    ap.add_argument("--replay", default=None)
    ap.add_argument("--list", action="store_true")
    a = ap.parse_args()
    if a.replay:
        sys.exit(do_replay(a.replay))
    pid = a.pid
    seed = int(os.environ.get("VERIF_SEED", "0") or 0)
    t0 = time.time()
    spec, hdir = load_spec(pid)
    obs = spec.obligations(a.tier)
    # Solver budgets in the specs are ~2x the time measured on an idle 16-core machine.  A budget that runs out is an
    # INCONCLUSIVE (exit 2), which on the unchanged tree would make the check useless, so the budgets are stretched for
    # machines that are slower or busy with other checks; a query that finishes is unaffected.
    tscale = float(os.environ.get("VERIF_TIMEOUT_SCALE", "3" if a.tier == "quick" else "1.5"))
    for o in obs:
        o["timeout"] = int(o.get("timeout", 120) * tscale)
    if a.only:
        want = set(a.only.split(","))
        obs = [o for o in obs if o["name"] in want]
    if a.list:
        for o in obs:
            print(o["name"], o.get("backends", ["cadical"]), o.get("timeout"))
        return
    kfs = known_findings(pid)
    kf_defs = ["KF_" + e["id"] for e in kfs if e.get("kind") == "known"]
    known_ids = set(e["id"] for e in kfs if e.get("kind") == "known")
    # obligations that only demonstrate a known finding run only while it is listed as known
    obs = [o for o in obs if not o.get("kf_demo") or o["kf_demo"] in known_ids]
    os.makedirs(os.path.join(BUILD, pid), exist_ok=True)
    st = run_selftests(pid, spec, hdir) if not a.only else []
    bad_st = [s for s in st if not s["ok"]]
    for s in st:
        say("selftest %-28s %s" % (s["name"], "ok" if s["ok"] else "FAILED\n" + s["detail"]))
    slots = threading.BoundedSemaphore(a.jobs)
    recs = []
    if not bad_st:
        # longest first
        order = sorted(obs, key=lambda o: -o.get("timeout", 120) * len(o.get("backends", ["cadical"])))
        with ThreadPoolExecutor(max_workers=a.jobs) as ex:
            futs = [ex.submit(run_obligation, pid, o, hdir, kf_defs, slots) for o in order]
            for f, o in zip(futs, order):
                pass
            for f in futs:
                r = f.result()
                recs.append(r)
                say("  %-40s %-12s %6.1fs %s" % (r["name"], r["verdict"], r.get("wall_s", 0),
                                                r.get("answered_by", "") or r.get("detail", "")[:300]))
    # ---- verdict
    violations, broken, known_lines = [], [], []
    by_name = {o["name"]: o for o in obs}
    for r in recs:
        ob = by_name[r["name"]]
        if ob.get("kf_demo"):
            e = [k for k in kfs if k["id"] == ob["kf_demo"]][0]
            if r["verdict"] == "cex":
                known_lines.append("KNOWN-FINDING: property=%s %s [%s; replay=%s native=%s]" %
                                   (pid, e["text"], e["id"], r.get("replay"), r.get("native_replay")))
            elif r["verdict"] == "holds":
                say("note: known finding %s no longer reproduces (obligation %s holds)" % (e["id"], r["name"]))
            else:
                broken.append(r)
            continue
        if r["verdict"] == "cex":
            violations.append(r)
        elif r["verdict"] != "holds":
            broken.append(r)
    for l in known_lines:
        say(l)
    for r in violations:
        say("VIOLATION property=%s replay=%s  # obligation=%s failing=%s native_replay=%s" %
            (pid, r.get("replay"), r["name"],
             "; ".join("%s @ %s" % (f["description"], f["loc"]) for f in r.get("failing", [])[:3]), r.get("native_replay")))
    for r in broken:
        say("INCONCLUSIVE property=%s obligation=%s verdict=%s %s" % (pid, r["name"], r["verdict"], r.get("detail", "")[:2000]))
    for s in bad_st:
        say("INCONCLUSIVE property=%s selftest=%s failed" % (pid, s["name"]))
    wall = time.time() - t0
    # ---- evidence
    discharged = [r for r in recs if r["verdict"] == "holds"]
    nontriv = [r for r in discharged if by_name[r["name"]].get("witness", True)]
    queries = sum(r.get("queries", 0) for r in recs)
    funcs = sorted(set(f for r in recs for f in r.get("repo_functions_encoded", [])))
    ev = dict(
        property_id=pid, tier=a.tier, seed=seed, level="model_checking",
        coverage=dict(
            evaluations=max(queries, 0),
            distinct_nontrivial=len(nontriv),
            rule="one evaluation = one solver query (a CBMC multi-property SAT run, or an exported SMT2 VC run through z3-new's tactic pipeline, or a witness-only query). An obligation counts as distinct and non-trivial when its solver verdict is UNSAT for every assertion AND its reachability witness (assert(0) after the last assertion) was shown reachable by the solver, so the obligation is not vacuous.",
            obligations=len(recs), discharged=len(discharged),
            exhaustive=False,
            repo_functions_encoded=funcs,
            solver_seconds=round(sum(b.get("solver_s", 0) for r in recs for b in r.get("backends", {}).values()), 1),
            peak_rss_mb=max([b.get("rss_mb", 0) for r in recs for b in r.get("backends", {}).values()] or [0]),
            selftests=[dict(name=s["name"], ok=s["ok"], what=s["what"]) for s in st],
            known_findings=[l for l in known_lines],
            samples=[{k: v for k, v in r.items() if k not in ("detail",)} for r in recs],
            checker_cmd="bin/check %s --tier %s" % (pid, a.tier),
            trusted_base=getattr(spec, "TRUSTED", []),
            explanation=getattr(spec, "EXPLANATION", ""),
        ),
        assumptions=getattr(spec, "ASSUMPTIONS", []),
        wall_s=round(wall, 2), violations=len(violations))
    os.makedirs(os.path.join(VERIF, "evidence"), exist_ok=True)
    if not a.only and not os.environ.get("VERIF_NO_EVIDENCE"):	# seed runs against scratch worktrees set VERIF_NO_EVIDENCE
        with open(os.path.join(VERIF, "evidence", pid + ".json"), "w") as f:
            json.dump(ev, f, indent=1)
    say("%s %s: %d obligations, %d discharged, %d violations, %d inconclusive, %.0fs" %
        (pid, a.tier, len(recs), len(discharged), len(violations), len(broken) + len(bad_st), wall))
    if violations:
        sys.exit(1)
    if broken or bad_st:
        sys.exit(2)
    sys.exit(0)


if __name__ == "__main__":
    main()
