#!/bin/sh
# usage: engine/seedtest.sh <seed-dir containing patch.diff> <property ids...>
# applies the patch to a scratch worktree of /repo (SEED_WT, default /tmp/seed/wt-run), runs the quick checks against
# it (VERIF_REPO), restores the worktree; prints one line per property.  /repo itself is never modified.
d=$1; shift
WT=${SEED_WT:-/tmp/seed/wt-run}
cd $WT || exit 2
git checkout -q -- . ; git diff --quiet || { echo "$WT not clean"; exit 2; }
git apply "$d/patch.diff" || { echo "patch does not apply: $d"; exit 2; }
for p in "$@"; do
  out=$(cd /verif && VERIF_NO_EVIDENCE=1 VERIF_REPO=$WT timeout 1800 bin/check $p --tier ${SEED_TIER:-quick} 2>&1)
  rc=$?
  echo "SEED $(basename $(dirname $d))/$(basename $d) check=$p exit=$rc $(echo "$out" | grep -c '^VIOLATION') violation line(s): $(echo "$out" | grep '^VIOLATION' | head -2 | sed 's/.*# obligation=//' | cut -c1-140 | tr '\n' '|')"
done
git checkout -q -- .
