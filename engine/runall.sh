#!/bin/sh
# runs every claimed check's command for the given tier (default quick) one after the other; prints one summary line each
tier=${1:-quick}
cd /verif || exit 2
rc_all=0
for p in $(python3 -c "import json;print(' '.join(c['property_id'] for c in json.load(open('MANIFEST.json'))['checks']))"); do
  out=$(bin/check $p --tier $tier 2>&1); rc=$?
  echo "$p exit=$rc $(echo "$out" | tail -1)"
  echo "$out" | grep -E "^(VIOLATION|INCONCLUSIVE|KNOWN-FINDING)" | cut -c1-200
  [ $rc -ne 0 ] && rc_all=1
done
exit $rc_all
