#!/usr/bin/env python3
"""Regenerates /verif/MANIFEST.json from the per-property table below and the harness directories that exist."""
import json, os
V = os.path.dirname(os.path.dirname(os.path.abspath(__file__)))
TECH = "bounded symbolic execution of the real C sources with CBMC 6.11 (goto-cc build of /repo files), verification conditions decided by a SAT/SMT portfolio (cadical, kissat, z3 5.1 tactic pipeline on the exported SMT2); counterexamples replayed natively under ASan/UBSan"
P = {}
def prop(pid, text, note, tech=None, ref=None):
    P[pid] = dict(text=text, note=note, tech=tech or TECH, ref=ref or ("DESIGN.md section 3, " + pid))
exec(open(os.path.join(V, "engine", "manifest_table.py")).read())
checks, na = [], []
for i in range(1, 21):
    pid = "C%02d" % i
    if pid in P and os.path.exists(os.path.join(V, "harness", pid, "spec.py")):
        p = P[pid]
        checks.append(dict(property_id=pid, quick_cmd="bin/check %s --tier quick" % pid,
                           thorough_cmd="bin/check %s --tier thorough" % pid,
                           evidence_file="/verif/evidence/%s.json" % pid,
                           replay_cmd_template="bin/check %s --replay {path}" % pid,
                           engine="cbmc-portfolio",
                           level_claimed=dict(category="model_checking", text=p["text"], design_ref=p["ref"]),
                           level_note=p["note"], technique=p["tech"]))
    else:
        na.append(dict(property_id=pid, reason=NA.get(pid, "check not built yet in this round (harness pending); nothing is claimed for it")))
m = dict(version=1,
         setup_cmd="sh engine/setup.sh",
         hooks=dict(guard="LIBCPERCIVA_VERIF", enable="no source hooks are needed: harnesses #include the real .c files and rebind calls with goto-instrument --replace-calls; the guard name is reserved",
                    baseline_off_cmd="cd /repo && make -j8 all >/dev/null && make test", source_commits=[], add_only=True),
         engines=[dict(name="cbmc-portfolio", path="engine/check.py", serves_properties=[c["property_id"] for c in checks],
                       kind_free_text="bounded model checking of the real C sources (CBMC symex -> SAT/SMT), one obligation per harness entry point, witness twin per obligation, native replay of counterexamples")],
         checks=checks, not_applicable=na,
         notes="All checks rebuild their goto binaries from /repo's working tree on every run. Exit 2 = inconclusive (never reported as success).")
json.dump(m, open(os.path.join(V, "MANIFEST.json"), "w"), indent=1)
print("checks:", [c["property_id"] for c in checks], "na:", [n["property_id"] for n in na])
