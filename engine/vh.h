/*
 * vh.h -- harness support.  One header, two personalities:
 *   -DVH_CBMC   : symbolic inputs come from nondet, every drawn value passes
 *                 through the global `vh_tape` so that a counterexample trace
 *                 lists them in program order ("the tape").
 *   native      : (-DREPLAY) the same harness is compiled with gcc + ASan/UBSan
 *                 against the real sources; nd_*() read the tape back, CHECK()
 *                 prints REPRODUCED and exits 1.
 * Every symbolic input of every harness MUST be drawn through nd_*().
 */
#ifndef VH_H_
#define VH_H_
#include <stddef.h>
#include <stdint.h>

#ifdef VH_CBMC
uint64_t nondet_vh_u64(void);
static uint64_t vh_tape;
static inline uint64_t nd_u64(void) { vh_tape = nondet_vh_u64(); return vh_tape; }
#define ASSUME(c) __CPROVER_assume(c)
#define CHECK(c, msg) __CPROVER_assert((c), msg)
#ifdef NOWITNESS
#define REACHED() do {} while (0)
#else
#define REACHED() __CPROVER_assert(0, "WITNESS")
#endif
#define VH_NATIVE 0
/* p is the start of a heap/stack object of exactly n bytes */
#define VH_EXACT_OBJECT(p, n) (__CPROVER_OBJECT_SIZE(p) == (size_t)(n) && __CPROVER_POINTER_OFFSET(p) == 0)
#else /* native replay */
#include <stdio.h>
#include <stdlib.h>
static FILE * vh_tf;
static uint64_t
nd_u64(void)
{
	unsigned long long v = 0;

	if (vh_tf == NULL) {
		const char * p = getenv("VH_TAPE");
		vh_tf = fopen(p ? p : "tape.txt", "r");
	}
	if (vh_tf && fscanf(vh_tf, "%llu", &v) == 1)
		return ((uint64_t)v);
	return (0);
}
#define ASSUME(c) do { if (!(c)) { printf("REPLAY-ASSUME-FAILED: %s (%s:%d)\n", #c, __FILE__, __LINE__); fflush(stdout); _Exit(3); } } while (0)
#define CHECK(c, msg) do { if (!(c)) { printf("REPRODUCED: %s (%s:%d)\n", msg, __FILE__, __LINE__); fflush(stdout); _Exit(1); } } while (0)
#define REACHED() do {} while (0)
#define __CPROVER_assume(c) ASSUME(c)
#define __CPROVER_assert(c, msg) CHECK(c, msg)
#define VH_NATIVE 1
#define VH_EXACT_OBJECT(p, n) 1	/* natively ASan polices object bounds */
#endif

static inline uint8_t nd_u8(void) { return ((uint8_t)nd_u64()); }
static inline uint16_t nd_u16(void) { return ((uint16_t)nd_u64()); }
static inline uint32_t nd_u32(void) { return ((uint32_t)nd_u64()); }
static inline int nd_int(void) { return ((int)(uint32_t)nd_u64()); }
static inline short nd_short(void) { return ((short)(uint16_t)nd_u64()); }
static inline int64_t nd_i64(void) { return ((int64_t)nd_u64()); }
static inline size_t nd_size(void) { return ((size_t)nd_u64()); }
static inline int nd_bool(void) { return ((int)(nd_u64() & 1)); }
/* A size in [0, max]. */
static inline size_t nd_size_le(size_t max) { size_t v = nd_size(); ASSUME(v <= max); return (v); }
/* An int in [lo, hi]. */
static inline int nd_int_in(int lo, int hi) { int v = nd_int(); ASSUME(v >= lo && v <= hi); return (v); }
/* constant-bound variant: fully unrolled by symex without an unwind limit; fills the first n (<= max) bytes */
#define ND_BYTES_MAX(p, n, max) do { for (size_t vh_i_ = 0; vh_i_ < (size_t)(max); vh_i_++) if (vh_i_ < (size_t)(n)) ((uint8_t *)(p))[vh_i_] = nd_u8(); } while (0)
#define ND_BYTES(p, n) do { for (size_t vh_i_ = 0; vh_i_ < (size_t)(n); vh_i_++) ((uint8_t *)(p))[vh_i_] = nd_u8(); } while (0)

#if VH_NATIVE
#ifndef VH_NO_MAIN
void VH_ENTRY(void);
int
main(void)
{
	VH_ENTRY();
	printf("NOT-REPRODUCED\n");
	return (0);
}
#endif
#endif
#endif /* !VH_H_ */
