#!/usr/bin/env python3
"""rewrites the table of section A.5 of DESIGN.md from evidence/*.json (run after engine/runall.sh quick)"""
import json, glob, os, re
V = os.path.dirname(os.path.dirname(os.path.abspath(__file__)))
rows = ["| check | obligations | discharged | solver queries | repo functions encoded | peak RSS | wall |", "|---|---|---|---|---|---|---|"]
tot = [0, 0, 0, 0.0]
for f in sorted(glob.glob(os.path.join(V, "evidence", "C*.json"))):
    e = json.load(open(f)); c = e["coverage"]
    rows.append("| %s | %d | %d | %d | %d | %d MB | %.0f s |" % (e["property_id"], c["obligations"], c["discharged"], c["evaluations"], len(c["repo_functions_encoded"]), c["peak_rss_mb"], e["wall_s"]))
    tot[0] += c["obligations"]; tot[1] += c["discharged"]; tot[2] += c["evaluations"]; tot[3] += e["wall_s"]
rows.append("| **all** | %d | %d | %d | | | %.0f s |" % (tot[0], tot[1], tot[2], tot[3]))
p = os.path.join(V, "DESIGN.md"); s = open(p).read()
i = s.index("### A.5 Measured cost"); j = s.index("| check |", i); k = s.index("\n\n", j)
s = s[:j] + "\n".join(rows) + s[k:]
open(p, "w").write(s)
print("\n".join(rows[-3:]))
