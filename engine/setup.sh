#!/bin/sh
# offline setup: nothing to fetch or build ahead of time; verify the tools are present
for t in cbmc goto-cc goto-instrument z3-new kissat gcc python3; do command -v $t >/dev/null || { echo "missing $t"; exit 1; }; done
mkdir -p /verif/build /verif/replay /verif/evidence
exit 0
