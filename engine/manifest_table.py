NA = {}
prop("C17", "Bounded proof (SAT, UNSAT verdict) over all inputs within the stated sizes that base-64 / hex / endian codecs equal independent references, are mutually inverse, accept exactly the well-formed language and stay inside exact-size objects.",
     "Sizes above the bounds in evidence are outside the claim; CBMC C semantics and string.h models; reference codecs in refs/.")
