#!/usr/bin/env python3
"""copies confirmed seeded changes from /tmp/seed/out into /verif/seeded/<prop>-<A|B>/ with meta.json built from the
confirmation log (/tmp/seed/confirm.txt) and the check results (/tmp/seed/results*.txt)"""
import json, os, re, shutil, glob
conf = {}
for l in open('/tmp/seed/confirm.txt'):
    m = re.match(r"CONFIRM (\S+) demo_clean_rc=(\d+) build_rc=(\d+) test_rc=(\d+) tests_failed=(\d+) demo_mutated_rc=(\d+)", l)
    if m: conf[m.group(1)] = dict(demo_on_unchanged_tree_exit=int(m.group(2)), build_exit=int(m.group(3)), make_test_exit=int(m.group(4)), tests_failed=int(m.group(5)), demo_with_change_exit=int(m.group(6)))
res = {}
for f in sorted(glob.glob('/tmp/seed/results*.txt')):
    for l in open(f):
        m = re.match(r"SEED (\S+) check=(\S+) exit=(\d+) (\d+) violation line\(s\): (.*)", l)
        if m: res.setdefault(m.group(1), {})[m.group(2)] = dict(exit=int(m.group(3)), violation_lines=int(m.group(4)), first=m.group(5).strip()[:300])
for sid, c in sorted(conf.items()):
    ok = c["demo_on_unchanged_tree_exit"] == 0 and c["build_exit"] == 0 and c["make_test_exit"] == 0 and c["demo_with_change_exit"] != 0
    src = '/tmp/seed/out/' + sid
    dst = '/verif/seeded/' + sid.replace('/', '-')
    if not ok:
        print("NOT KEPT", sid, c); continue
    os.makedirs(dst, exist_ok=True)
    for fn in ("patch.diff", "demo.c", "run.sh", "notes.txt"):
        if os.path.exists(os.path.join(src, fn)): shutil.copy(os.path.join(src, fn), dst)
    notes = open(os.path.join(src, "notes.txt")).read() if os.path.exists(os.path.join(src, "notes.txt")) else ""
    meta = dict(property=sid.split('/')[0], origin="independent sub-agent given only the property text and a scratch worktree",
                needs_to_manifest=notes[:1500], confirmation=c,
                what_i_ran="in a scratch worktree: run.sh on the unchanged tree (exit 0), git apply patch.diff, make -j4 all, make test (all scripts pass), run.sh again (non-zero); then engine/seedtest.sh <dir> <checks> against a scratch worktree (VERIF_REPO)",
                checks=res.get(sid, {}),
                caught_by=[k for k, v in res.get(sid, {}).items() if v["exit"] == 1])
    json.dump(meta, open(os.path.join(dst, "meta.json"), "w"), indent=1)
    print("kept", sid, "caught_by", meta["caught_by"])
