/* C models of the string.h / stdio.h functions used by http.c that CBMC's library lacks or does not constant-fold.
 * Each follows the C11 text; compared with glibc by selftest_str.c. */
#include <stddef.h>
static size_t vh_strcspn(const char * s, const char * rej) { size_t n = 0; for (; s[n] != 0; n++) { for (size_t j = 0; rej[j] != 0; j++) if (s[n] == rej[j]) return n; } return n; }
static size_t vh_strspn(const char * s, const char * acc) { size_t n = 0; for (; s[n] != 0; n++) { int in = 0; for (size_t j = 0; acc[j] != 0; j++) if (s[n] == acc[j]) in = 1; if (!in) return n; } return n; }
static char * vh_strstr(const char * h, const char * nd) { if (nd[0] == 0) return (char *)h; for (size_t i = 0; h[i] != 0; i++) { size_t j = 0; while (nd[j] != 0 && h[i + j] == nd[j]) j++; if (nd[j] == 0) return (char *)h + i; } return (char *)0; }
static char * vh_stpcpy(char * d, const char * s) { size_t i = 0; for (; s[i] != 0; i++) d[i] = s[i]; d[i] = 0; return d + i; }
static int vh_isdig(char c) { return c >= '0' && c <= '9'; }
static int vh_issp(char c) { return c == ' ' || (c >= '\t' && c <= '\r'); }
/* %d of scanf: optional white space, optional sign, at least one digit; value saturates (glibc: strtol semantics) */
static int vh_scan_d(const char ** pp, int * out)
{
	const char * p = *pp; long v = 0; int neg = 0, any = 0;
	while (vh_issp(*p)) p++;
	if (*p == '+' || *p == '-') { neg = (*p == '-'); p++; }
	while (vh_isdig(*p)) { if (v < 100000000000L) v = v * 10 + (*p - '0'); any = 1; p++; }
	if (!any) return 0;
	if (v > 2147483647L) v = neg ? 2147483648L : 2147483647L;
	*out = (int)(neg ? -v : v); *pp = p; return 1;
}
/* sscanf(s, "HTTP/%d.%d %d ", &a, &b, &c): number of conversions */
static int vh_sscanf_http(const char * s, int * a, int * b, int * c)
{
	static const char lit[] = "HTTP/";
	for (int i = 0; i < 5; i++) { if (s[i] != lit[i]) return (s[i] == 0 && i == 0) ? -1 : 0; }
	s += 5;
	if (!vh_scan_d(&s, a)) return (*s == 0) ? 0 : 0;
	if (*s != '.') return 1;
	s++;
	if (!vh_scan_d(&s, b)) return 1;
	while (vh_issp(*s)) s++;	/* a space in the format matches any amount of white space, including none */
	if (!vh_scan_d(&s, c)) return 2;
	return 3;
}
