#define _GNU_SOURCE
#include <stdio.h>
#include <string.h>
#include <stdint.h>
#include "libc_str.c"
int main(void)
{
	static const char A[] = "HTP/1.0 29-+a:\t\r\n";
	uint64_t rs = 0x1234567887654321ull; long bad = 0;
	for (long t = 0; t < 2000000; t++) {
		char s[20], q[4]; int len;
		rs ^= rs << 13; rs ^= rs >> 7; rs ^= rs << 17; len = (int)(rs % 16);
		for (int i = 0; i < len; i++) { rs ^= rs << 13; rs ^= rs >> 7; rs ^= rs << 17; s[i] = (i < 5 && t % 2) ? "HTTP/"[i] : A[rs % (sizeof A - 1)]; }
		s[len] = 0;
		rs ^= rs << 13; rs ^= rs >> 7; rs ^= rs << 17; q[0] = A[rs % (sizeof A - 1)]; q[1] = (rs & 256) ? A[(rs >> 9) % (sizeof A - 1)] : 0; q[2] = 0;
		if (vh_strcspn(s, q) != strcspn(s, q) || vh_strspn(s, q) != strspn(s, q) || vh_strstr(s, q) != strstr(s, q)) { bad++; if (bad < 5) printf("str mismatch \"%s\" \"%s\"\n", s, q); }
		char d1[24], d2[24]; if (vh_stpcpy(d1, s) - d1 != stpcpy(d2, s) - d2 || strcmp(d1, d2)) bad++;
		int a1 = -7, b1 = -7, c1 = -7, a2 = -7, b2 = -7, c2 = -7;
		int r1 = sscanf(s, "HTTP/%d.%d %d ", &a1, &b1, &c1), r2 = vh_sscanf_http(s, &a2, &b2, &c2);
		if (r1 < 0) r1 = 0; if (r2 < 0) r2 = 0;
		if (r1 != r2 || (r1 >= 1 && a1 != a2) || (r1 >= 2 && b1 != b2) || (r1 >= 3 && c1 != c2)) { bad++; if (bad < 9) printf("sscanf mismatch \"%s\": %d/%d (%d %d %d)/(%d %d %d)\n", s, r1, r2, a1, b1, c1, a2, b2, c2); }
	}
	printf("string/sscanf models vs glibc: %ld mismatches\n", bad);
	return bad ? 1 : 0;
}
