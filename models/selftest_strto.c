/* native: vh_strtoumax / vh_strtoimax against glibc on generated strings (value, end offset, errno) */
#include <stdio.h>
#include <stdlib.h>
#include <string.h>
#include "libc_strto.c"
int main(void)
{
	static const char A[] = " \t\n+-00117789afFxXzZgG_.";
	static const int B[] = {0, 2, 8, 10, 16, 17, 36};
	uint64_t rs = 0x243f6a8885a308d3ull; long bad = 0, n = 0;
	for (long t = 0; t < 3000000; t++) {
		char s[26]; int len;
		rs ^= rs << 13; rs ^= rs >> 7; rs ^= rs << 17;
		len = (t % 5 == 0) ? 18 + (int)(rs % 7) : (int)(rs % 7);
		for (int i = 0; i < len; i++) { rs ^= rs << 13; rs ^= rs >> 7; rs ^= rs << 17; s[i] = (t % 5 == 0 && i > 1) ? "0123456789abcdef"[rs % 16] : A[rs % (sizeof A - 1)]; }
		s[len] = 0;
		int base = B[rs % 7];
		char * e1, * e2;
		errno = 0; uintmax_t u1 = strtoumax(s, &e1, base); int er1 = errno;
		errno = 0; uintmax_t u2 = vh_strtoumax(s, &e2, base); int er2 = errno;
		if (u1 != u2 || e1 != e2 || (er1 == ERANGE) != (er2 == ERANGE)) { if (bad < 10) printf("U mismatch \"%s\" base %d: %ju/%ju end %td/%td errno %d/%d\n", s, base, u1, u2, e1 - s, e2 - s, er1, er2); bad++; }
		errno = 0; intmax_t i1 = strtoimax(s, &e1, base); er1 = errno;
		errno = 0; intmax_t i2 = vh_strtoimax(s, &e2, base); er2 = errno;
		if (i1 != i2 || e1 != e2 || (er1 == ERANGE) != (er2 == ERANGE)) { if (bad < 10) printf("I mismatch \"%s\" base %d: %jd/%jd end %td/%td errno %d/%d\n", s, base, i1, i2, e1 - s, e2 - s, er1, er2); bad++; }
		n++;
	}
	printf("strto models vs glibc: %ld strings, %ld mismatches\n", n, bad);
	return bad ? 1 : 0;
}
