/* model wrapper: maps the x86 intrinsic names used by libcperciva onto the C models in vh_x86.h */
#ifndef VH_X86_WRAP_H_
#define VH_X86_WRAP_H_
#include "vh_x86.h"
typedef vh_m128i __m128i;
typedef vh_m128 __m128;
typedef vh_m128d __m128d;
#define _MM_SHUFFLE(z, y, x, w) (((z) << 6) | ((y) << 4) | ((x) << 2) | (w))
#define _mm_loadu_si128(p) vhm_mm_loadu_si128((const void *)(p))
#define _mm_storeu_si128(p, a) vhm_mm_storeu_si128((void *)(p), a)
#define _mm_loadu_si64(p) vhm_mm_loadu_si64((const void *)(p))
#define _mm_load_sd(p) vhm_mm_load_sd((const void *)(p))
#define _mm_castpd_si128 vhm_mm_castpd_si128
#define _mm_castps_si128 vhm_mm_castps_si128
#define _mm_castsi128_ps vhm_mm_castsi128_ps
#define _mm_move_ss vhm_mm_move_ss
#define _mm_or_si128 vhm_mm_or_si128
#define _mm_xor_si128 vhm_mm_xor_si128
#define _mm_add_epi32 vhm_mm_add_epi32
#define _mm_set_epi32 vhm_mm_set_epi32
#define _mm_set_epi8 vhm_mm_set_epi8
#define _mm_slli_epi32 vhm_mm_slli_epi32
#define _mm_srli_epi32 vhm_mm_srli_epi32
#define _mm_slli_epi16 vhm_mm_slli_epi16
#define _mm_srli_epi16 vhm_mm_srli_epi16
#define _mm_srli_epi64 vhm_mm_srli_epi64
#define _mm_shuffle_epi32 vhm_mm_shuffle_epi32
#define _mm_shufflelo_epi16 vhm_mm_shufflelo_epi16
#define _mm_shufflehi_epi16 vhm_mm_shufflehi_epi16
#define _mm_slli_si128 vhm_mm_slli_si128
#define _mm_srli_si128 vhm_mm_srli_si128
#define _mm_unpacklo_epi64 vhm_mm_unpacklo_epi64
#define _mm_unpackhi_epi64 vhm_mm_unpackhi_epi64
#define _mm_shuffle_epi8 vhm_mm_shuffle_epi8
#define _mm_alignr_epi8 vhm_mm_alignr_epi8
#define _mm_crc32_u8 vhm_mm_crc32_u8
#define _mm_crc32_u32 vhm_mm_crc32_u32
#define _mm_crc32_u64 vhm_mm_crc32_u64
#define _mm_sha256rnds2_epu32 vhm_mm_sha256rnds2_epu32
#define _mm_sha256msg1_epu32 vhm_mm_sha256msg1_epu32
#define _mm_sha256msg2_epu32 vhm_mm_sha256msg2_epu32
#define _mm_aesenc_si128 vhm_mm_aesenc_si128
#define _mm_aesenclast_si128 vhm_mm_aesenclast_si128
#define _mm_aeskeygenassist_si128 vhm_mm_aeskeygenassist_si128
#define _mm_and_si128 vhm_mm_and_si128
#define _mm_andnot_si128 vhm_mm_andnot_si128
#define _mm_sub_epi32 vhm_mm_sub_epi32
#define _mm_add_epi64 vhm_mm_add_epi64
#define _mm_add_epi16 vhm_mm_add_epi16
#define _mm_add_epi8 vhm_mm_add_epi8
#define _mm_srai_epi32 vhm_mm_srai_epi32
#define _mm_srai_epi16 vhm_mm_srai_epi16
#define _mm_slli_epi64 vhm_mm_slli_epi64
#define _mm_setzero_si128 vhm_mm_setzero_si128
#define _mm_set1_epi32 vhm_mm_set1_epi32
#define _mm_set1_epi8 vhm_mm_set1_epi8
#define _mm_setr_epi32 vhm_mm_setr_epi32
#define _mm_cvtsi32_si128 vhm_mm_cvtsi32_si128
#define _mm_cvtsi128_si32 vhm_mm_cvtsi128_si32
#define _mm_unpacklo_epi32 vhm_mm_unpacklo_epi32
#define _mm_unpackhi_epi32 vhm_mm_unpackhi_epi32
#define _mm_cmpeq_epi32 vhm_mm_cmpeq_epi32
#define _mm_cmpeq_epi8 vhm_mm_cmpeq_epi8
#define _mm_movemask_epi8 vhm_mm_movemask_epi8
#define _mm_extract_epi32 vhm_mm_extract_epi32
#define _mm_insert_epi32 vhm_mm_insert_epi32
#define _mm_blend_epi16 vhm_mm_blend_epi16
#define _mm_load_si128(p) vhm_mm_loadu_si128((const void *)(p))
#define _mm_store_si128(p, a) vhm_mm_storeu_si128((void *)(p), a)
#define _mm_loadl_epi64(p) vhm_mm_loadu_si64((const void *)(p))
/* RDRAND: hardware randomness = nondeterministic value and success flag (provided by the harness when used) */
int vhm_rdrand32_step(unsigned int *);
#define _rdrand32_step vhm_rdrand32_step
#endif
