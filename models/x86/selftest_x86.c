/* native differential test: every model in vh_x86.h against the real instruction on this CPU */
#include <immintrin.h>
#include <stdio.h>
#include <stdlib.h>
#include <string.h>
#include "vh_x86.h"
static uint64_t rs = 88172645463325252ull;
static uint64_t rnd(void) { rs ^= rs << 13; rs ^= rs >> 7; rs ^= rs << 17; return rs; }
static __m128i R(vh_m128i a) { __m128i r; memcpy(&r, &a, 16); return r; }
static vh_m128i M(__m128i a) { vh_m128i r; memcpy(&r, &a, 16); return r; }
static vh_m128i rv(int k) { vh_m128i r; for (int i = 0; i < 4; i++) { uint64_t x = rnd(); r.d[i] = (k % 7 == 0) ? 0 : (k % 7 == 1) ? 0xffffffffu : (k % 7 == 2) ? 0x80000000u >> (x % 32) : (uint32_t)x; } return r; }
static int bad;
#define EQ(name, model, real) do { vh_m128i m_ = (model); __m128i r_ = (real); if (memcmp(&m_, &r_, 16)) { if (bad < 20) printf("MISMATCH %s (case %d)\n", name, k); bad++; } } while (0)
#define IMM8(F) switch (im) { case 0: F(0); break; case 1: F(1); break; case 2: F(2); break; case 3: F(3); break; case 4: F(4); break; case 5: F(5); break; case 7: F(7); break; case 8: F(8); break; case 10: F(10); break; case 12: F(12); break; case 13: F(13); break; case 15: F(15); break; case 16: F(16); break; case 17: F(17); break; case 18: F(18); break; case 19: F(19); break; case 22: F(22); break; case 25: F(25); break; case 27: F(0x1B); break; case 31: F(31); break; case 32: F(32); break; case 0x4e: F(0x4e); break; case 0xb1: F(0xb1); break; case 0x39: F(0x39); break; case 0x93: F(0x93); break; case 0xff: F(0xff); break; case 0xaa: F(0xaa); break; case 0x55: F(0x55); break; case 0x00 + 64: F(64); break; default: break; }
int main(void)
{
	static const int imms[] = {0,1,2,3,4,5,7,8,10,12,13,15,16,17,18,19,22,25,27,31,32,0x4e,0xb1,0x39,0x93,0xff,0xaa,0x55,64};
	for (int k = 0; k < 200000; k++) {
		vh_m128i a = rv(k), b = rv(k / 7), c = rv(k / 49);
		uint8_t buf[40]; for (int i = 0; i < 40; i++) buf[i] = (uint8_t)rnd();
		int off = k % 17;
		EQ("loadu_si128", vhm_mm_loadu_si128(buf + off), _mm_loadu_si128((const __m128i *)(buf + off)));
		{ uint8_t o1[16], o2[16]; vhm_mm_storeu_si128(o1, a); _mm_storeu_si128((__m128i *)o2, R(a)); if (memcmp(o1, o2, 16)) { bad++; printf("MISMATCH storeu\n"); } }
		{ vh_m128i m = vhm_mm_loadu_si64(buf + off); __m128i r = _mm_loadl_epi64((const __m128i *)(buf + off)); if (memcmp(&m, &r, 16)) { bad++; printf("MISMATCH loadu_si64\n"); } }
		{ vh_m128d m = vhm_mm_load_sd(buf + off); double dd; memcpy(&dd, buf + off, 8); __m128d r = _mm_load_sd(&dd); if (memcmp(&m, &r, 16)) { bad++; printf("MISMATCH load_sd\n"); } }
		EQ("or", vhm_mm_or_si128(a, b), _mm_or_si128(R(a), R(b)));
		EQ("xor", vhm_mm_xor_si128(a, b), _mm_xor_si128(R(a), R(b)));
		EQ("add_epi32", vhm_mm_add_epi32(a, b), _mm_add_epi32(R(a), R(b)));
		EQ("set_epi32", vhm_mm_set_epi32((int)a.d[3], (int)a.d[2], (int)a.d[1], (int)a.d[0]), _mm_set_epi32((int)a.d[3], (int)a.d[2], (int)a.d[1], (int)a.d[0]));
		EQ("set_epi8", vhm_mm_set_epi8(buf[15],buf[14],buf[13],buf[12],buf[11],buf[10],buf[9],buf[8],buf[7],buf[6],buf[5],buf[4],buf[3],buf[2],buf[1],buf[0]),
		    _mm_set_epi8(buf[15],buf[14],buf[13],buf[12],buf[11],buf[10],buf[9],buf[8],buf[7],buf[6],buf[5],buf[4],buf[3],buf[2],buf[1],buf[0]));
		EQ("move_ss", vhm_mm_castps_si128(vhm_mm_move_ss(vhm_mm_castsi128_ps(a), vhm_mm_castsi128_ps(b))), _mm_castps_si128(_mm_move_ss(_mm_castsi128_ps(R(a)), _mm_castsi128_ps(R(b)))));
		EQ("unpacklo64", vhm_mm_unpacklo_epi64(a, b), _mm_unpacklo_epi64(R(a), R(b)));
		EQ("unpackhi64", vhm_mm_unpackhi_epi64(a, b), _mm_unpackhi_epi64(R(a), R(b)));
		EQ("shuffle_epi8", vhm_mm_shuffle_epi8(a, b), _mm_shuffle_epi8(R(a), R(b)));
		EQ("sha256rnds2", vhm_mm_sha256rnds2_epu32(a, b, c), _mm_sha256rnds2_epu32(R(a), R(b), R(c)));
		EQ("sha256msg1", vhm_mm_sha256msg1_epu32(a, b), _mm_sha256msg1_epu32(R(a), R(b)));
		EQ("sha256msg2", vhm_mm_sha256msg2_epu32(a, b), _mm_sha256msg2_epu32(R(a), R(b)));
		EQ("aesenc", vhm_mm_aesenc_si128(a, b), _mm_aesenc_si128(R(a), R(b)));
		EQ("aesenclast", vhm_mm_aesenclast_si128(a, b), _mm_aesenclast_si128(R(a), R(b)));
		EQ("and", vhm_mm_and_si128(a, b), _mm_and_si128(R(a), R(b)));
		EQ("andnot", vhm_mm_andnot_si128(a, b), _mm_andnot_si128(R(a), R(b)));
		EQ("sub_epi32", vhm_mm_sub_epi32(a, b), _mm_sub_epi32(R(a), R(b)));
		EQ("add_epi64", vhm_mm_add_epi64(a, b), _mm_add_epi64(R(a), R(b)));
		EQ("add_epi16", vhm_mm_add_epi16(a, b), _mm_add_epi16(R(a), R(b)));
		EQ("add_epi8", vhm_mm_add_epi8(a, b), _mm_add_epi8(R(a), R(b)));
		EQ("set1_epi32", vhm_mm_set1_epi32((int)a.d[0]), _mm_set1_epi32((int)a.d[0]));
		EQ("set1_epi8", vhm_mm_set1_epi8((char)buf[0]), _mm_set1_epi8((char)buf[0]));
		EQ("setr_epi32", vhm_mm_setr_epi32((int)a.d[0], (int)a.d[1], (int)a.d[2], (int)a.d[3]), _mm_setr_epi32((int)a.d[0], (int)a.d[1], (int)a.d[2], (int)a.d[3]));
		EQ("setzero", vhm_mm_setzero_si128(), _mm_setzero_si128());
		EQ("cvtsi32_si128", vhm_mm_cvtsi32_si128((int)a.d[2]), _mm_cvtsi32_si128((int)a.d[2]));
		if (vhm_mm_cvtsi128_si32(a) != _mm_cvtsi128_si32(R(a))) { bad++; printf("MISMATCH cvtsi128_si32\n"); }
		EQ("unpacklo32", vhm_mm_unpacklo_epi32(a, b), _mm_unpacklo_epi32(R(a), R(b)));
		EQ("unpackhi32", vhm_mm_unpackhi_epi32(a, b), _mm_unpackhi_epi32(R(a), R(b)));
		EQ("cmpeq32", vhm_mm_cmpeq_epi32(a, k % 3 ? b : a), _mm_cmpeq_epi32(R(a), R(k % 3 ? b : a)));
		{ vh_m128i a2 = a; a2.d[k & 3] ^= 0xff00; EQ("cmpeq8", vhm_mm_cmpeq_epi8(a, a2), _mm_cmpeq_epi8(R(a), R(a2))); }
		if (vhm_mm_movemask_epi8(a) != _mm_movemask_epi8(R(a))) { bad++; printf("MISMATCH movemask\n"); }
		if (vhm_mm_extract_epi32(a, 2) != _mm_extract_epi32(R(a), 2)) { bad++; printf("MISMATCH extract\n"); }
		EQ("insert_epi32", vhm_mm_insert_epi32(a, (int)b.d[0], 1), _mm_insert_epi32(R(a), (int)b.d[0], 1));
		if (vhm_mm_crc32_u8(a.d[0], buf[0]) != _mm_crc32_u8(a.d[0], buf[0])) { bad++; printf("MISMATCH crc32_u8\n"); }
		if (vhm_mm_crc32_u32(a.d[0], b.d[1]) != _mm_crc32_u32(a.d[0], b.d[1])) { bad++; printf("MISMATCH crc32_u32\n"); }
		{ uint64_t x = ((uint64_t)a.d[1] << 32) | a.d[0], y = ((uint64_t)b.d[1] << 32) | b.d[0]; if (vhm_mm_crc32_u64(x, y) != _mm_crc32_u64(x, y)) { bad++; printf("MISMATCH crc32_u64\n"); } }
		int im = imms[k % (int)(sizeof imms / sizeof imms[0])];
#define F_SLLI32(n) EQ("slli_epi32", vhm_mm_slli_epi32(a, n), _mm_slli_epi32(R(a), n))
#define F_SRLI32(n) EQ("srli_epi32", vhm_mm_srli_epi32(a, n), _mm_srli_epi32(R(a), n))
#define F_SLLI16(n) EQ("slli_epi16", vhm_mm_slli_epi16(a, n), _mm_slli_epi16(R(a), n))
#define F_SRLI16(n) EQ("srli_epi16", vhm_mm_srli_epi16(a, n), _mm_srli_epi16(R(a), n))
#define F_SRLI64(n) EQ("srli_epi64", vhm_mm_srli_epi64(a, n), _mm_srli_epi64(R(a), n))
#define F_SHUF32(n) EQ("shuffle_epi32", vhm_mm_shuffle_epi32(a, n), _mm_shuffle_epi32(R(a), n))
#define F_SHUFLO(n) EQ("shufflelo", vhm_mm_shufflelo_epi16(a, n), _mm_shufflelo_epi16(R(a), n))
#define F_SHUFHI(n) EQ("shufflehi", vhm_mm_shufflehi_epi16(a, n), _mm_shufflehi_epi16(R(a), n))
#define F_SLLSI(n) EQ("slli_si128", vhm_mm_slli_si128(a, n), _mm_slli_si128(R(a), n))
#define F_SRLSI(n) EQ("srli_si128", vhm_mm_srli_si128(a, n), _mm_srli_si128(R(a), n))
#define F_ALIGNR(n) EQ("alignr", vhm_mm_alignr_epi8(a, b, n), _mm_alignr_epi8(R(a), R(b), n))
#define F_KGA(n) EQ("aeskeygenassist", vhm_mm_aeskeygenassist_si128(a, n), _mm_aeskeygenassist_si128(R(a), n))
		IMM8(F_SLLI32); IMM8(F_SRLI32); IMM8(F_SLLI16); IMM8(F_SRLI16); IMM8(F_SRLI64); IMM8(F_SHUF32); IMM8(F_SHUFLO); IMM8(F_SHUFHI);
#define F_SRAI32(n) EQ("srai_epi32", vhm_mm_srai_epi32(a, n), _mm_srai_epi32(R(a), n))
#define F_SRAI16(n) EQ("srai_epi16", vhm_mm_srai_epi16(a, n), _mm_srai_epi16(R(a), n))
#define F_SLLI64(n) EQ("slli_epi64", vhm_mm_slli_epi64(a, n), _mm_slli_epi64(R(a), n))
#define F_BLEND(n) EQ("blend_epi16", vhm_mm_blend_epi16(a, b, n), _mm_blend_epi16(R(a), R(b), n))
		IMM8(F_SRAI32); IMM8(F_SRAI16); IMM8(F_SLLI64); IMM8(F_BLEND);
		IMM8(F_SLLSI); IMM8(F_SRLSI); IMM8(F_ALIGNR); IMM8(F_KGA);
	}
	printf("x86 intrinsic models vs hardware: %d mismatches over 200000 operand sets\n", bad);
	return bad ? 1 : 0;
}
