/*
 * vh_x86.h -- C models of the x86 intrinsics used by libcperciva, written from
 * the Intel SDM pseudo-code.  All model functions are named vhm_<intrinsic>
 * and operate on vh_m128i = four little-endian 32-bit lanes (d[0] = bits
 * 31:0).  The wrapper headers emmintrin.h/tmmintrin.h/smmintrin.h/wmmintrin.h/
 * immintrin.h in this directory map the real names onto the models, so the
 * real /repo sources compile unchanged under goto-cc.  selftest_x86.c compares
 * every model against the real instruction on this host (every run).
 */
#ifndef VH_X86_H_
#define VH_X86_H_
#include <stdint.h>
#include <stddef.h>
typedef struct { uint32_t d[4]; } vh_m128i;
typedef struct { uint32_t d[4]; } vh_m128;	/* raw bit patterns */
typedef struct { uint32_t d[4]; } vh_m128d;	/* raw bit patterns */

static inline uint8_t vhm_byte(vh_m128i a, int i) { return (uint8_t)(a.d[i >> 2] >> (8 * (i & 3))); }
static inline vh_m128i vhm_from_bytes(const uint8_t * b)
{
	vh_m128i r;
	for (int i = 0; i < 4; i++)
		r.d[i] = (uint32_t)b[4*i] | ((uint32_t)b[4*i+1] << 8) | ((uint32_t)b[4*i+2] << 16) | ((uint32_t)b[4*i+3] << 24);
	return r;
}
static inline vh_m128i vhm_mm_loadu_si128(const void * p) { return vhm_from_bytes((const uint8_t *)p); }
static inline void vhm_mm_storeu_si128(void * p, vh_m128i a)
{
	uint8_t * b = (uint8_t *)p;
	for (int i = 0; i < 16; i++) b[i] = vhm_byte(a, i);
}
/* loads 64 bits into the low half, upper half zero */
static inline vh_m128i vhm_mm_loadu_si64(const void * p)
{
	const uint8_t * b = (const uint8_t *)p; vh_m128i r;
	r.d[0] = (uint32_t)b[0] | ((uint32_t)b[1] << 8) | ((uint32_t)b[2] << 16) | ((uint32_t)b[3] << 24);
	r.d[1] = (uint32_t)b[4] | ((uint32_t)b[5] << 8) | ((uint32_t)b[6] << 16) | ((uint32_t)b[7] << 24);
	r.d[2] = r.d[3] = 0;
	return r;
}
static inline vh_m128d vhm_mm_load_sd(const void * p) { vh_m128i t = vhm_mm_loadu_si64(p); vh_m128d r; for (int i = 0; i < 4; i++) r.d[i] = t.d[i]; return r; }
static inline vh_m128i vhm_mm_castpd_si128(vh_m128d a) { vh_m128i r; for (int i = 0; i < 4; i++) r.d[i] = a.d[i]; return r; }
static inline vh_m128i vhm_mm_castps_si128(vh_m128 a) { vh_m128i r; for (int i = 0; i < 4; i++) r.d[i] = a.d[i]; return r; }
static inline vh_m128 vhm_mm_castsi128_ps(vh_m128i a) { vh_m128 r; for (int i = 0; i < 4; i++) r.d[i] = a.d[i]; return r; }
static inline vh_m128 vhm_mm_move_ss(vh_m128 a, vh_m128 b) { vh_m128 r = a; r.d[0] = b.d[0]; return r; }
static inline vh_m128i vhm_mm_or_si128(vh_m128i a, vh_m128i b) { vh_m128i r; for (int i = 0; i < 4; i++) r.d[i] = a.d[i] | b.d[i]; return r; }
static inline vh_m128i vhm_mm_xor_si128(vh_m128i a, vh_m128i b) { vh_m128i r; for (int i = 0; i < 4; i++) r.d[i] = a.d[i] ^ b.d[i]; return r; }
static inline vh_m128i vhm_mm_add_epi32(vh_m128i a, vh_m128i b) { vh_m128i r; for (int i = 0; i < 4; i++) r.d[i] = a.d[i] + b.d[i]; return r; }
static inline vh_m128i vhm_mm_set_epi32(int e3, int e2, int e1, int e0) { vh_m128i r; r.d[0] = (uint32_t)e0; r.d[1] = (uint32_t)e1; r.d[2] = (uint32_t)e2; r.d[3] = (uint32_t)e3; return r; }
static inline vh_m128i vhm_mm_set_epi8(char e15, char e14, char e13, char e12, char e11, char e10, char e9, char e8,
    char e7, char e6, char e5, char e4, char e3, char e2, char e1, char e0)
{
	uint8_t b[16] = {(uint8_t)e0,(uint8_t)e1,(uint8_t)e2,(uint8_t)e3,(uint8_t)e4,(uint8_t)e5,(uint8_t)e6,(uint8_t)e7,
	    (uint8_t)e8,(uint8_t)e9,(uint8_t)e10,(uint8_t)e11,(uint8_t)e12,(uint8_t)e13,(uint8_t)e14,(uint8_t)e15};
	return vhm_from_bytes(b);
}
static inline vh_m128i vhm_mm_slli_epi32(vh_m128i a, int n) { vh_m128i r; for (int i = 0; i < 4; i++) r.d[i] = (n < 0 || n > 31) ? 0 : a.d[i] << n; return r; }
static inline vh_m128i vhm_mm_srli_epi32(vh_m128i a, int n) { vh_m128i r; for (int i = 0; i < 4; i++) r.d[i] = (n < 0 || n > 31) ? 0 : a.d[i] >> n; return r; }
static inline vh_m128i vhm_mm_slli_epi16(vh_m128i a, int n)
{
	vh_m128i r;
	for (int i = 0; i < 4; i++) { uint32_t lo = a.d[i] & 0xffff, hi = a.d[i] >> 16; lo = (n < 0 || n > 15) ? 0 : (lo << n) & 0xffff; hi = (n < 0 || n > 15) ? 0 : (hi << n) & 0xffff; r.d[i] = lo | (hi << 16); }
	return r;
}
static inline vh_m128i vhm_mm_srli_epi16(vh_m128i a, int n)
{
	vh_m128i r;
	for (int i = 0; i < 4; i++) { uint32_t lo = a.d[i] & 0xffff, hi = a.d[i] >> 16; lo = (n < 0 || n > 15) ? 0 : lo >> n; hi = (n < 0 || n > 15) ? 0 : hi >> n; r.d[i] = lo | (hi << 16); }
	return r;
}
static inline vh_m128i vhm_mm_srli_epi64(vh_m128i a, int n)
{
	vh_m128i r;
	for (int i = 0; i < 2; i++) { uint64_t q = ((uint64_t)a.d[2*i+1] << 32) | a.d[2*i]; q = (n < 0 || n > 63) ? 0 : q >> n; r.d[2*i] = (uint32_t)q; r.d[2*i+1] = (uint32_t)(q >> 32); }
	return r;
}
static inline vh_m128i vhm_mm_shuffle_epi32(vh_m128i a, int imm) { vh_m128i r; for (int i = 0; i < 4; i++) r.d[i] = a.d[(imm >> (2 * i)) & 3]; return r; }
static inline vh_m128i vhm_mm_shufflelo_epi16(vh_m128i a, int imm)
{
	uint16_t w[4] = {(uint16_t)a.d[0], (uint16_t)(a.d[0] >> 16), (uint16_t)a.d[1], (uint16_t)(a.d[1] >> 16)}, o[4];
	vh_m128i r = a;
	for (int i = 0; i < 4; i++) o[i] = w[(imm >> (2 * i)) & 3];
	r.d[0] = o[0] | ((uint32_t)o[1] << 16); r.d[1] = o[2] | ((uint32_t)o[3] << 16);
	return r;
}
static inline vh_m128i vhm_mm_shufflehi_epi16(vh_m128i a, int imm)
{
	uint16_t w[4] = {(uint16_t)a.d[2], (uint16_t)(a.d[2] >> 16), (uint16_t)a.d[3], (uint16_t)(a.d[3] >> 16)}, o[4];
	vh_m128i r = a;
	for (int i = 0; i < 4; i++) o[i] = w[(imm >> (2 * i)) & 3];
	r.d[2] = o[0] | ((uint32_t)o[1] << 16); r.d[3] = o[2] | ((uint32_t)o[3] << 16);
	return r;
}
static inline vh_m128i vhm_mm_slli_si128(vh_m128i a, int n)
{
	uint8_t o[16];
	if (n >= 0 && n <= 16 && n % 4 == 0) {	/* whole-lane shifts stay word-level (keeps solver terms free of byte reassembly) */
		vh_m128i r; int k = n / 4;
		for (int i = 0; i < 4; i++) r.d[i] = (i - k >= 0) ? a.d[i - k] : 0;
		return r;
	}
	for (int i = 0; i < 16; i++) o[i] = (n >= 0 && n < 16 && i - n >= 0) ? vhm_byte(a, i - n) : 0;
	return vhm_from_bytes(o);
}
static inline vh_m128i vhm_mm_srli_si128(vh_m128i a, int n)
{
	uint8_t o[16];
	if (n >= 0 && n <= 16 && n % 4 == 0) {
		vh_m128i r; int k = n / 4;
		for (int i = 0; i < 4; i++) r.d[i] = (i + k < 4) ? a.d[i + k] : 0;
		return r;
	}
	for (int i = 0; i < 16; i++) o[i] = (n >= 0 && n < 16 && i + n < 16) ? vhm_byte(a, i + n) : 0;
	return vhm_from_bytes(o);
}
static inline vh_m128i vhm_mm_unpacklo_epi64(vh_m128i a, vh_m128i b) { vh_m128i r; r.d[0] = a.d[0]; r.d[1] = a.d[1]; r.d[2] = b.d[0]; r.d[3] = b.d[1]; return r; }
static inline vh_m128i vhm_mm_unpackhi_epi64(vh_m128i a, vh_m128i b) { vh_m128i r; r.d[0] = a.d[2]; r.d[1] = a.d[3]; r.d[2] = b.d[2]; r.d[3] = b.d[3]; return r; }
/* SSSE3 */
static inline vh_m128i vhm_mm_shuffle_epi8(vh_m128i a, vh_m128i m)
{
	uint8_t o[16];
	for (int i = 0; i < 16; i++) { uint8_t c = vhm_byte(m, i); o[i] = (c & 0x80) ? 0 : vhm_byte(a, c & 15); }
	return vhm_from_bytes(o);
}
static inline vh_m128i vhm_mm_alignr_epi8(vh_m128i a, vh_m128i b, int n) /* (a:b) >> 8n, low 128 bits */
{
	uint8_t o[16];
	if (n >= 0 && n <= 32 && n % 4 == 0) {
		vh_m128i r; int k = n / 4;
		for (int i = 0; i < 4; i++) { int j = i + k; r.d[i] = j < 4 ? b.d[j] : j < 8 ? a.d[j - 4] : 0; }
		return r;
	}
	for (int i = 0; i < 16; i++) { int k = i + n; o[i] = (n < 0 || k >= 32) ? 0 : k < 16 ? vhm_byte(b, k) : vhm_byte(a, k - 16); }
	return vhm_from_bytes(o);
}
/* SSE4.2 CRC32 (polynomial 0x11EDC6F41, reflected): SDM "CRC32" */
static inline uint32_t vhm_mm_crc32_u8(uint32_t crc, uint8_t v)
{
	crc ^= v;
	for (int k = 0; k < 8; k++) crc = (crc >> 1) ^ ((crc & 1) ? 0x82F63B78u : 0);
	return crc;
}
static inline uint32_t vhm_mm_crc32_u32(uint32_t crc, uint32_t v) { for (int i = 0; i < 4; i++) crc = vhm_mm_crc32_u8(crc, (uint8_t)(v >> (8 * i))); return crc; }
static inline uint64_t vhm_mm_crc32_u64(uint64_t crc, uint64_t v) { uint32_t c = (uint32_t)crc; for (int i = 0; i < 8; i++) c = vhm_mm_crc32_u8(c, (uint8_t)(v >> (8 * i))); return (uint64_t)c; }
/* SHA extensions: SDM SHA256RNDS2, SHA256MSG1, SHA256MSG2 */
static inline uint32_t vhm_ror(uint32_t x, int n) { return (x >> n) | (x << (32 - n)); }
static inline vh_m128i vhm_sha256rnds2_core(vh_m128i src1 /* CDGH */, vh_m128i src2 /* ABEF */, vh_m128i wk)
{
	uint32_t A = src2.d[3], B = src2.d[2], C = src1.d[3], D = src1.d[2], E = src2.d[1], F = src2.d[0], G = src1.d[1], H = src1.d[0];
	for (int i = 0; i < 2; i++) {
		/* Ch/Maj in the equivalent bitwise forms used by /repo and refs (identities proved in C01 ch-maj-f-g-identities); the model is compared with the hardware instruction by the selftest */
		uint32_t ch = (E & (F ^ G)) ^ G, maj = (A & (B | C)) | (B & C);
		uint32_t s1 = vhm_ror(E, 6) ^ vhm_ror(E, 11) ^ vhm_ror(E, 25), s0 = vhm_ror(A, 2) ^ vhm_ror(A, 13) ^ vhm_ror(A, 22);
		uint32_t t1 = H + s1 + ch + wk.d[i], t2 = s0 + maj;
		H = G; G = F; F = E; E = D + t1; D = C; C = B; B = A; A = t1 + t2;
	}
	vh_m128i r; r.d[3] = A; r.d[2] = B; r.d[1] = E; r.d[0] = F;
	return r;
}
/* separate entry point so that a harness can rebind the intrinsic to a logging wrapper around the same core */
static inline vh_m128i vhm_mm_sha256rnds2_epu32(vh_m128i src1, vh_m128i src2, vh_m128i wk) { return vhm_sha256rnds2_core(src1, src2, wk); }
static inline uint32_t vhm_sig0(uint32_t x) { return vhm_ror(x, 7) ^ vhm_ror(x, 18) ^ (x >> 3); }
static inline uint32_t vhm_sig1(uint32_t x) { return vhm_ror(x, 17) ^ vhm_ror(x, 19) ^ (x >> 10); }
static inline vh_m128i vhm_mm_sha256msg1_epu32(vh_m128i a, vh_m128i b)
{
	vh_m128i r;
	r.d[0] = a.d[0] + vhm_sig0(a.d[1]); r.d[1] = a.d[1] + vhm_sig0(a.d[2]); r.d[2] = a.d[2] + vhm_sig0(a.d[3]); r.d[3] = a.d[3] + vhm_sig0(b.d[0]);
	return r;
}
static inline vh_m128i vhm_mm_sha256msg2_epu32(vh_m128i a, vh_m128i b)
{
	vh_m128i r;
	r.d[0] = a.d[0] + vhm_sig1(b.d[2]); r.d[1] = a.d[1] + vhm_sig1(b.d[3]);
	r.d[2] = a.d[2] + vhm_sig1(r.d[0]); r.d[3] = a.d[3] + vhm_sig1(r.d[1]);
	return r;
}
/* AES-NI: FIPS-197 round functions on the column-major state (byte i of the register = state byte i) */
static const uint8_t vhm_sbox[256] = {
0x63,0x7c,0x77,0x7b,0xf2,0x6b,0x6f,0xc5,0x30,0x01,0x67,0x2b,0xfe,0xd7,0xab,0x76,0xca,0x82,0xc9,0x7d,0xfa,0x59,0x47,0xf0,0xad,0xd4,0xa2,0xaf,0x9c,0xa4,0x72,0xc0,
0xb7,0xfd,0x93,0x26,0x36,0x3f,0xf7,0xcc,0x34,0xa5,0xe5,0xf1,0x71,0xd8,0x31,0x15,0x04,0xc7,0x23,0xc3,0x18,0x96,0x05,0x9a,0x07,0x12,0x80,0xe2,0xeb,0x27,0xb2,0x75,
0x09,0x83,0x2c,0x1a,0x1b,0x6e,0x5a,0xa0,0x52,0x3b,0xd6,0xb3,0x29,0xe3,0x2f,0x84,0x53,0xd1,0x00,0xed,0x20,0xfc,0xb1,0x5b,0x6a,0xcb,0xbe,0x39,0x4a,0x4c,0x58,0xcf,
0xd0,0xef,0xaa,0xfb,0x43,0x4d,0x33,0x85,0x45,0xf9,0x02,0x7f,0x50,0x3c,0x9f,0xa8,0x51,0xa3,0x40,0x8f,0x92,0x9d,0x38,0xf5,0xbc,0xb6,0xda,0x21,0x10,0xff,0xf3,0xd2,
0xcd,0x0c,0x13,0xec,0x5f,0x97,0x44,0x17,0xc4,0xa7,0x7e,0x3d,0x64,0x5d,0x19,0x73,0x60,0x81,0x4f,0xdc,0x22,0x2a,0x90,0x88,0x46,0xee,0xb8,0x14,0xde,0x5e,0x0b,0xdb,
0xe0,0x32,0x3a,0x0a,0x49,0x06,0x24,0x5c,0xc2,0xd3,0xac,0x62,0x91,0x95,0xe4,0x79,0xe7,0xc8,0x37,0x6d,0x8d,0xd5,0x4e,0xa9,0x6c,0x56,0xf4,0xea,0x65,0x7a,0xae,0x08,
0xba,0x78,0x25,0x2e,0x1c,0xa6,0xb4,0xc6,0xe8,0xdd,0x74,0x1f,0x4b,0xbd,0x8b,0x8a,0x70,0x3e,0xb5,0x66,0x48,0x03,0xf6,0x0e,0x61,0x35,0x57,0xb9,0x86,0xc1,0x1d,0x9e,
0xe1,0xf8,0x98,0x11,0x69,0xd9,0x8e,0x94,0x9b,0x1e,0x87,0xe9,0xce,0x55,0x28,0xdf,0x8c,0xa1,0x89,0x0d,0xbf,0xe6,0x42,0x68,0x41,0x99,0x2d,0x0f,0xb0,0x54,0xbb,0x16};
static inline uint8_t vhm_xtime(uint8_t x) { return (uint8_t)((x << 1) ^ ((x & 0x80) ? 0x1b : 0)); }
static inline vh_m128i vhm_aes_round(vh_m128i a, vh_m128i rk, int last)
{
	uint8_t s[16], t[16], o[16];
	for (int i = 0; i < 16; i++) s[i] = vhm_sbox[vhm_byte(a, i)];
	/* ShiftRows: state byte (row r, col c) is s[4c + r]; row r rotates left by r */
	for (int c = 0; c < 4; c++) for (int r = 0; r < 4; r++) t[4 * c + r] = s[4 * ((c + r) & 3) + r];
	if (last) { for (int i = 0; i < 16; i++) o[i] = t[i]; }
	else for (int c = 0; c < 4; c++) {
		uint8_t a0 = t[4*c], a1 = t[4*c+1], a2 = t[4*c+2], a3 = t[4*c+3];
		o[4*c]   = (uint8_t)(vhm_xtime(a0) ^ (vhm_xtime(a1) ^ a1) ^ a2 ^ a3);
		o[4*c+1] = (uint8_t)(a0 ^ vhm_xtime(a1) ^ (vhm_xtime(a2) ^ a2) ^ a3);
		o[4*c+2] = (uint8_t)(a0 ^ a1 ^ vhm_xtime(a2) ^ (vhm_xtime(a3) ^ a3));
		o[4*c+3] = (uint8_t)((vhm_xtime(a0) ^ a0) ^ a1 ^ a2 ^ vhm_xtime(a3));
	}
	return vhm_mm_xor_si128(vhm_from_bytes(o), rk);
}
static inline vh_m128i vhm_mm_aesenc_si128(vh_m128i a, vh_m128i rk) { return vhm_aes_round(a, rk, 0); }
static inline vh_m128i vhm_mm_aesenclast_si128(vh_m128i a, vh_m128i rk) { return vhm_aes_round(a, rk, 1); }
static inline uint32_t vhm_subword(uint32_t x) { return (uint32_t)vhm_sbox[x & 0xff] | ((uint32_t)vhm_sbox[(x >> 8) & 0xff] << 8) | ((uint32_t)vhm_sbox[(x >> 16) & 0xff] << 16) | ((uint32_t)vhm_sbox[x >> 24] << 24); }
static inline vh_m128i vhm_mm_aeskeygenassist_si128(vh_m128i a, int rcon)
{
	uint32_t x1 = vhm_subword(a.d[1]), x3 = vhm_subword(a.d[3]);
	vh_m128i r;
	r.d[0] = x1; r.d[1] = ((x1 >> 8) | (x1 << 24)) ^ (uint32_t)(rcon & 0xff);
	r.d[2] = x3; r.d[3] = ((x3 >> 8) | (x3 << 24)) ^ (uint32_t)(rcon & 0xff);
	return r;
}

/* ---- intrinsics not used by the pinned tree but plausible in a change to it (so that such a change is decided, not a build error) ---- */
static inline vh_m128i vhm_mm_and_si128(vh_m128i a, vh_m128i b) { vh_m128i r; for (int i = 0; i < 4; i++) r.d[i] = a.d[i] & b.d[i]; return r; }
static inline vh_m128i vhm_mm_andnot_si128(vh_m128i a, vh_m128i b) { vh_m128i r; for (int i = 0; i < 4; i++) r.d[i] = ~a.d[i] & b.d[i]; return r; }
static inline vh_m128i vhm_mm_sub_epi32(vh_m128i a, vh_m128i b) { vh_m128i r; for (int i = 0; i < 4; i++) r.d[i] = a.d[i] - b.d[i]; return r; }
static inline vh_m128i vhm_mm_add_epi64(vh_m128i a, vh_m128i b)
{
	vh_m128i r;
	for (int i = 0; i < 2; i++) { uint64_t x = ((uint64_t)a.d[2*i+1] << 32) | a.d[2*i], y = ((uint64_t)b.d[2*i+1] << 32) | b.d[2*i]; x += y; r.d[2*i] = (uint32_t)x; r.d[2*i+1] = (uint32_t)(x >> 32); }
	return r;
}
static inline vh_m128i vhm_mm_add_epi16(vh_m128i a, vh_m128i b)
{
	vh_m128i r;
	for (int i = 0; i < 4; i++) r.d[i] = ((a.d[i] + b.d[i]) & 0xffff) | ((((a.d[i] >> 16) + (b.d[i] >> 16)) & 0xffff) << 16);
	return r;
}
static inline vh_m128i vhm_mm_add_epi8(vh_m128i a, vh_m128i b)
{
	uint8_t o[16];
	for (int i = 0; i < 16; i++) o[i] = (uint8_t)(vhm_byte(a, i) + vhm_byte(b, i));
	return vhm_from_bytes(o);
}
static inline vh_m128i vhm_mm_srai_epi32(vh_m128i a, int n)
{
	vh_m128i r;
	for (int i = 0; i < 4; i++) { uint32_t sg = (a.d[i] >> 31) ? 0xffffffffu : 0; r.d[i] = (n < 0 || n > 31) ? sg : ((a.d[i] >> n) | (n ? (sg << (32 - n)) : 0)); }
	return r;
}
static inline vh_m128i vhm_mm_srai_epi16(vh_m128i a, int n)
{
	vh_m128i r;
	for (int i = 0; i < 4; i++) {
		uint32_t h[2] = { a.d[i] & 0xffff, a.d[i] >> 16 };
		for (int j = 0; j < 2; j++) { uint32_t sg = (h[j] >> 15) ? 0xffffu : 0; h[j] = (n < 0 || n > 15) ? sg : (((h[j] >> n) | (n ? (sg << (16 - n)) : 0)) & 0xffff); }
		r.d[i] = h[0] | (h[1] << 16);
	}
	return r;
}
static inline vh_m128i vhm_mm_slli_epi64(vh_m128i a, int n)
{
	vh_m128i r;
	for (int i = 0; i < 2; i++) { uint64_t q = ((uint64_t)a.d[2*i+1] << 32) | a.d[2*i]; q = (n < 0 || n > 63) ? 0 : q << n; r.d[2*i] = (uint32_t)q; r.d[2*i+1] = (uint32_t)(q >> 32); }
	return r;
}
static inline vh_m128i vhm_mm_setzero_si128(void) { vh_m128i r; r.d[0] = r.d[1] = r.d[2] = r.d[3] = 0; return r; }
static inline vh_m128i vhm_mm_set1_epi32(int e) { vh_m128i r; for (int i = 0; i < 4; i++) r.d[i] = (uint32_t)e; return r; }
static inline vh_m128i vhm_mm_set1_epi8(char e) { vh_m128i r; for (int i = 0; i < 4; i++) r.d[i] = 0x01010101u * (uint8_t)e; return r; }
static inline vh_m128i vhm_mm_setr_epi32(int e0, int e1, int e2, int e3) { return vhm_mm_set_epi32(e3, e2, e1, e0); }
static inline vh_m128i vhm_mm_cvtsi32_si128(int e) { vh_m128i r; r.d[0] = (uint32_t)e; r.d[1] = r.d[2] = r.d[3] = 0; return r; }
static inline int vhm_mm_cvtsi128_si32(vh_m128i a) { return (int)a.d[0]; }
static inline vh_m128i vhm_mm_unpacklo_epi32(vh_m128i a, vh_m128i b) { vh_m128i r; r.d[0] = a.d[0]; r.d[1] = b.d[0]; r.d[2] = a.d[1]; r.d[3] = b.d[1]; return r; }
static inline vh_m128i vhm_mm_unpackhi_epi32(vh_m128i a, vh_m128i b) { vh_m128i r; r.d[0] = a.d[2]; r.d[1] = b.d[2]; r.d[2] = a.d[3]; r.d[3] = b.d[3]; return r; }
static inline vh_m128i vhm_mm_cmpeq_epi32(vh_m128i a, vh_m128i b) { vh_m128i r; for (int i = 0; i < 4; i++) r.d[i] = a.d[i] == b.d[i] ? 0xffffffffu : 0; return r; }
static inline vh_m128i vhm_mm_cmpeq_epi8(vh_m128i a, vh_m128i b)
{
	uint8_t o[16];
	for (int i = 0; i < 16; i++) o[i] = vhm_byte(a, i) == vhm_byte(b, i) ? 0xff : 0;
	return vhm_from_bytes(o);
}
static inline int vhm_mm_movemask_epi8(vh_m128i a) { int m = 0; for (int i = 0; i < 16; i++) m |= (vhm_byte(a, i) >> 7) << i; return m; }
static inline int vhm_mm_extract_epi32(vh_m128i a, int k) { return (int)a.d[k & 3]; }
static inline vh_m128i vhm_mm_insert_epi32(vh_m128i a, int v, int k) { vh_m128i r = a; r.d[k & 3] = (uint32_t)v; return r; }
static inline vh_m128i vhm_mm_blend_epi16(vh_m128i a, vh_m128i b, int imm)
{
	vh_m128i r;
	for (int i = 0; i < 4; i++) { uint32_t lo = ((imm >> (2 * i)) & 1) ? b.d[i] & 0xffff : a.d[i] & 0xffff, hi = ((imm >> (2 * i + 1)) & 1) ? b.d[i] >> 16 : a.d[i] >> 16; r.d[i] = lo | (hi << 16); }
	return r;
}
#endif /* !VH_X86_H_ */
