/* run-time CPU feature detection (CPUID / getauxval, outside /repo's C semantics): arbitrary answer, stable across calls by the real caching code */
#ifndef VH_CPUDETECT_H_
#define VH_CPUDETECT_H_
#define VH_CPU_FEATURE(arch, feature) \
	int cpusupport_ ## arch ## _ ## feature ## _present_1 = 0; \
	int cpusupport_ ## arch ## _ ## feature ## _init_1 = 0; \
	int cpusupport_ ## arch ## _ ## feature ## _detect_1(void) { return nd_bool(); }
#endif
