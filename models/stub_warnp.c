/* warnp.h back end: logging has no bearing on any property; empty bodies (listed as a stub in the evidence) */
#include <stdarg.h>
void libcperciva_warn(const char * fmt, ...) { (void)fmt; }
void libcperciva_warnx(const char * fmt, ...) { (void)fmt; }
void warnp_setprogname(const char * n) { (void)n; }
