/*
 * Sequence model of the BSD TAILQ macros used by events/events_immediate.c (external/queue/queue.h is outside the
 * library proper): a TAILQ is the sequence of its elements.  Bounded (TQCAP elements per list; overflow sets
 * tq_over, which the harness asserts never happens).  selftest_tailq.c runs random operation sequences through this
 * model and the real queue.h and compares the sequences (every run).
 */
#ifndef VH_TAILQ_MODEL_H_
#define VH_TAILQ_MODEL_H_
#include <stddef.h>
#ifndef TQCAP
#define TQCAP 4
#endif
static int tq_over, tq_bad;
/* elements are stored as one-byte ids (tq_id / tq_ptr are supplied by the user of the model: id 0 = none): a list head
 * is 1 + TQCAP bytes, which keeps heads[i] at a symbolic index i affordable for the solver */
static unsigned char tq_id(const void *); static void * tq_ptr(unsigned char);
#define TAILQ_HEAD(name, type) struct name { unsigned char n; unsigned char it[TQCAP]; }
#define TAILQ_HEAD_INITIALIZER(head) { 0, { 0 } }
#define TAILQ_ENTRY(type) struct { char unused_; }
#define TAILQ_INIT(head) do { (head)->n = 0; } while (0)
#define TAILQ_EMPTY(head) ((head)->n == 0)
#define TAILQ_FIRST(head) ((head)->n > 0 ? tq_ptr((head)->it[0]) : NULL)
#define TAILQ_INSERT_TAIL(head, elm, field) do { \
	if ((head)->n < TQCAP) (head)->it[(head)->n++] = tq_id(elm); else tq_over = 1; } while (0)
#define TAILQ_REMOVE(head, elm, field) do { \
	int tq_k_ = -1; \
	for (int tq_i_ = 0; tq_i_ < TQCAP; tq_i_++) if (tq_i_ < (head)->n && tq_k_ < 0 && (head)->it[tq_i_] == tq_id(elm)) tq_k_ = tq_i_; \
	if (tq_k_ < 0) tq_bad = 1;	/* removing an element that is not on this list: undefined with the real macros */ \
	else { for (int tq_i_ = 0; tq_i_ + 1 < TQCAP; tq_i_++) if (tq_i_ >= tq_k_) (head)->it[tq_i_] = (head)->it[tq_i_ + 1]; (head)->n--; } \
	} while (0)
#endif
