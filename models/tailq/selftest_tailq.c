/* differential test: sequence model (models/tailq/queue.h) vs the real BSD macros (external/queue/queue.h) */
#include <stdio.h>
#include <stdlib.h>
#include <stdint.h>
struct node_m; struct node_r;
#define TQCAP 6
#include "tailq/queue.h"
struct node_m { int id; TAILQ_ENTRY(node_m) e; };
static struct node_m NM[18];
static unsigned char tq_id(const void * p) { return (unsigned char)((const struct node_m *)p - NM + 1); }
static void * tq_ptr(unsigned char i) { return i ? &NM[i - 1] : NULL; }
TAILQ_HEAD(hm, node_m);
static struct hm HM[3] = { TAILQ_HEAD_INITIALIZER(HM[0]), TAILQ_HEAD_INITIALIZER(HM[1]), TAILQ_HEAD_INITIALIZER(HM[2]) };
static void m_ins(int h, struct node_m * n) { TAILQ_INSERT_TAIL(&HM[h], n, e); }
static void m_rem(int h, struct node_m * n) { TAILQ_REMOVE(&HM[h], n, e); }
static struct node_m * m_first(int h) { return TAILQ_FIRST(&HM[h]); }
static int m_empty(int h) { return TAILQ_EMPTY(&HM[h]); }
#undef TAILQ_HEAD
#undef TAILQ_HEAD_INITIALIZER
#undef TAILQ_ENTRY
#undef TAILQ_INIT
#undef TAILQ_EMPTY
#undef TAILQ_FIRST
#undef TAILQ_INSERT_TAIL
#undef TAILQ_REMOVE
#include "external/queue/queue.h"
struct node_r { int id; TAILQ_ENTRY(node_r) e; };
TAILQ_HEAD(hr, node_r);
static struct hr HR[3] = { TAILQ_HEAD_INITIALIZER(HR[0]), TAILQ_HEAD_INITIALIZER(HR[1]), TAILQ_HEAD_INITIALIZER(HR[2]) };
static uint64_t rs = 0x9e3779b97f4a7c15ull;
static uint64_t rnd(void) { rs ^= rs << 13; rs ^= rs >> 7; rs ^= rs << 17; return rs; }
int main(void)
{
	static struct node_r NR[18]; int where[18]; long ops = 0, bad = 0;
	for (int i = 0; i < 18; i++) { NM[i].id = NR[i].id = i; where[i] = -1; }
	for (long it = 0; it < 2000000; it++) {
		int i = (int)(rnd() % 18), h = (int)(rnd() % 3), cnt = 0;
		for (int j = 0; j < 18; j++) if (where[j] == h) cnt++;
		if (where[i] < 0) { if (cnt < TQCAP) { m_ins(h, &NM[i]); TAILQ_INSERT_TAIL(&HR[h], &NR[i], e); where[i] = h; } }
		else { m_rem(where[i], &NM[i]); TAILQ_REMOVE(&HR[where[i]], &NR[i], e); where[i] = -1; }
		ops++;
		for (int q = 0; q < 3; q++) {
			struct node_r * r = TAILQ_FIRST(&HR[q]); struct node_m * m = m_first(q);
			if ((r == NULL) != (m == NULL) || (r && r->id != m->id) || (TAILQ_EMPTY(&HR[q]) != m_empty(q))) bad++;
			int k = 0; struct node_r * x;
			TAILQ_FOREACH(x, &HR[q], e) { if (k >= HM[q].n || ((struct node_m *)tq_ptr(HM[q].it[k]))->id != x->id) bad++; k++; }
			if (k != HM[q].n) bad++;
		}
	}
	printf("TAILQ sequence model vs real queue.h: %ld mismatches over %ld operations (tq_over=%d tq_bad=%d)\n", bad, ops, tq_over, tq_bad);
	return (bad || tq_over || tq_bad) ? 1 : 0;
}
