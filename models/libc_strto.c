/*
 * Models of strtoumax / strtoimax per C11 7.22.1.4 (+ glibc's errno behaviour): optional white space, optional
 * sign, base prefix handling (base 0 / 16), digits of the base, ERANGE clamping, negation wrapping for the unsigned
 * variant, endptr = nptr when no conversion.  Compared with glibc on generated strings by selftest_strto.c.
 * strtod is a CONTRACT STUB only (see parsenum harness): decimal->binary rounding is not modelled.
 */
#include <errno.h>
#include <inttypes.h>
#include <stdint.h>
static int vhs_space(unsigned char c) { return c == ' ' || (c >= '\t' && c <= '\r'); }
static int vhs_digit(unsigned char c) { if (c >= '0' && c <= '9') return c - '0'; if (c >= 'a' && c <= 'z') return c - 'a' + 10; if (c >= 'A' && c <= 'Z') return c - 'A' + 10; return 99; }
/* common scanner: returns magnitude (saturated flag in *ovf), sign in *neg, end pointer; *any = 0 if no digits */
static uintmax_t vhs_scan(const char * nptr, const char ** end, int base, int * neg, int * ovf, int * any)
{
	const unsigned char * s = (const unsigned char *)nptr;
	uintmax_t acc = 0;
	*neg = 0; *ovf = 0; *any = 0;
	while (vhs_space(*s)) s++;
	if (*s == '-') { *neg = 1; s++; } else if (*s == '+') s++;
	if ((base == 0 || base == 16) && s[0] == '0' && (s[1] == 'x' || s[1] == 'X') && vhs_digit(s[2]) < 16) { s += 2; base = 16; }
	if (base == 0) base = (s[0] == '0') ? 8 : 10;
	while (vhs_digit(*s) < base) {
		uintmax_t d = (uintmax_t)vhs_digit(*s);
		if (acc > (UINTMAX_MAX - d) / (uintmax_t)base) *ovf = 1; else acc = acc * (uintmax_t)base + d;
		*any = 1; s++;
	}
	*end = *any ? (const char *)s : nptr;
	return acc;
}
uintmax_t vh_strtoumax(const char * nptr, char ** endptr, int base)
{
	int neg, ovf, any; const char * e;
	if (base < 0 || base == 1 || base > 36) { errno = EINVAL; if (endptr) *endptr = (char *)nptr; return 0; }
	uintmax_t acc = vhs_scan(nptr, &e, base, &neg, &ovf, &any);
	if (endptr) *endptr = (char *)e;
	if (!any) return 0;
	if (ovf) { errno = ERANGE; return UINTMAX_MAX; }
	return neg ? (uintmax_t)0 - acc : acc;
}
intmax_t vh_strtoimax(const char * nptr, char ** endptr, int base)
{
	int neg, ovf, any; const char * e;
	if (base < 0 || base == 1 || base > 36) { errno = EINVAL; if (endptr) *endptr = (char *)nptr; return 0; }
	uintmax_t acc = vhs_scan(nptr, &e, base, &neg, &ovf, &any);
	if (endptr) *endptr = (char *)e;
	if (!any) return 0;
	if (neg) { if (ovf || acc > (uintmax_t)INTMAX_MAX + 1) { errno = ERANGE; return INTMAX_MIN; } return (acc == (uintmax_t)INTMAX_MAX + 1) ? INTMAX_MIN : -(intmax_t)acc; }
	if (ovf || acc > (uintmax_t)INTMAX_MAX) { errno = ERANGE; return INTMAX_MAX; }
	return (intmax_t)acc;
}
