/* native validation of refs/ref_hash.h against Python hashlib (driven by selftest_hash.py): reads hex messages on stdin, prints sha256 sha1 md5 */
#include <stdio.h>
#include <stdlib.h>
#include <string.h>
#include "ref_hash.h"
int main(void)
{
	static char line[70000]; static uint8_t msg[35000];
	while (fgets(line, sizeof line, stdin)) {
		size_t n = strlen(line); while (n && (line[n-1] == '\n')) n--;
		size_t len = n / 2;
		for (size_t i = 0; i < len; i++) { unsigned v; sscanf(line + 2 * i, "%2x", &v); msg[i] = (uint8_t)v; }
		uint8_t d[32];
		int algs[3] = {256, 1, 5}, dl[3] = {32, 20, 16};
		for (int a = 0; a < 3; a++) { ref_md_hash(algs[a], msg, len, d); for (int i = 0; i < dl[a]; i++) printf("%02x", d[i]); printf(a < 2 ? " " : "\n"); }
	}
	return 0;
}
