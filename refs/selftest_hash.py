#!/usr/bin/env python3
"""validates the C reference hashes (refs/ref_hash.h) against hashlib on boundary lengths and random content; exit 0 iff all agree"""
import hashlib, os, random, subprocess, sys, tempfile
here = os.path.dirname(os.path.abspath(__file__))
d = tempfile.mkdtemp(prefix="vh-selftest-")
exe = os.path.join(d, "t")
subprocess.check_call(["gcc", "-O1", "-w", "-I" + here, os.path.join(here, "selftest_hash.c"), "-o", exe])
rnd = random.Random(int(os.environ.get("VERIF_SEED", "0") or 0))
msgs = [bytes(rnd.randrange(256) for _ in range(n)) for n in list(range(0, 140)) + [191, 192, 247, 248, 255, 256, 1000, 4097]]
out = subprocess.run([exe], input="".join(m.hex() + "\n" for m in msgs).encode(), stdout=subprocess.PIPE, check=True).stdout.decode().split("\n")
bad = 0
for m, l in zip(msgs, out):
    want = " ".join(h(m).hexdigest() for h in (hashlib.sha256, hashlib.sha1, hashlib.md5))
    if l.strip() != want:
        bad += 1
        print("MISMATCH len", len(m))
import shutil; shutil.rmtree(d, ignore_errors=True)
print("ref_hash vs hashlib: %d messages, %d mismatches" % (len(msgs), bad))
sys.exit(1 if bad else 0)
