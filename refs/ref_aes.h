/* FIPS-197 reference: KeyExpansion (5.2) and Cipher (5.1), word/byte oriented exactly as in the standard's pseudo-code. */
#ifndef REF_AES_H_
#define REF_AES_H_
#include <stdint.h>
#include "ref_aes_sbox.h"
static inline uint8_t ref_aes_xt(uint8_t x) { return (uint8_t)((x << 1) ^ ((x >> 7) * 0x1b)); }
/* w[i] as 4 bytes w[4i..4i+3]; Nk = 4 or 8; produces 4*(Nr+1) words */
static void ref_aes_keyexp(const uint8_t * key, int Nk, uint8_t * w /* 16*(Nr+1) bytes */)
{
	int Nr = Nk + 6, i;
	uint8_t rcon = 1;
	for (i = 0; i < 4 * Nk; i++) w[i] = key[i];
	for (i = Nk; i < 4 * (Nr + 1); i++) {
		uint8_t t[4] = {w[4*(i-1)], w[4*(i-1)+1], w[4*(i-1)+2], w[4*(i-1)+3]};
		if (i % Nk == 0) {
			uint8_t u = t[0];	/* RotWord, SubWord, Rcon */
			t[0] = (uint8_t)(REF_AES_SBOX[t[1]] ^ rcon); t[1] = REF_AES_SBOX[t[2]]; t[2] = REF_AES_SBOX[t[3]]; t[3] = REF_AES_SBOX[u];
			rcon = ref_aes_xt(rcon);
		} else if (Nk > 6 && i % Nk == 4) {
			for (int k = 0; k < 4; k++) t[k] = REF_AES_SBOX[t[k]];
		}
		for (int k = 0; k < 4; k++) w[4*i+k] = (uint8_t)(w[4*(i-Nk)+k] ^ t[k]);
	}
}
/* one round on the column-major state s[4c+r]; last != 0 omits MixColumns; rk = 16 round-key bytes */
static void ref_aes_round(uint8_t * s, const uint8_t * rk, int last)
{
	uint8_t t[16];
	for (int c = 0; c < 4; c++) for (int r = 0; r < 4; r++) t[4*c+r] = REF_AES_SBOX[s[4*((c + r) % 4) + r]];	/* SubBytes + ShiftRows */
	for (int c = 0; c < 4; c++) {
		uint8_t a0 = t[4*c], a1 = t[4*c+1], a2 = t[4*c+2], a3 = t[4*c+3];
		if (last) { s[4*c] = a0; s[4*c+1] = a1; s[4*c+2] = a2; s[4*c+3] = a3; }
		else {
			s[4*c]   = (uint8_t)(ref_aes_xt(a0) ^ ref_aes_xt(a1) ^ a1 ^ a2 ^ a3);
			s[4*c+1] = (uint8_t)(a0 ^ ref_aes_xt(a1) ^ ref_aes_xt(a2) ^ a2 ^ a3);
			s[4*c+2] = (uint8_t)(a0 ^ a1 ^ ref_aes_xt(a2) ^ ref_aes_xt(a3) ^ a3);
			s[4*c+3] = (uint8_t)(ref_aes_xt(a0) ^ a0 ^ a1 ^ a2 ^ ref_aes_xt(a3));
		}
	}
	for (int i = 0; i < 16; i++) s[i] ^= rk[i];
}
static void ref_aes_encrypt(const uint8_t * key, int Nk, const uint8_t in[16], uint8_t out[16])
{
	uint8_t w[240], s[16];
	int Nr = Nk + 6;
	ref_aes_keyexp(key, Nk, w);
	for (int i = 0; i < 16; i++) s[i] = in[i] ^ w[i];
	for (int r = 1; r < Nr; r++) ref_aes_round(s, w + 16 * r, 0);
	ref_aes_round(s, w + 16 * Nr, 1);
	for (int i = 0; i < 16; i++) out[i] = s[i];
}
#endif
