/*
 * Independent references for the compression functions and the Merkle-Damgard
 * constructions: FIPS 180-4 (SHA-256 6.2.2, SHA-1 6.1.2), RFC 1321 (MD5 3.4).
 * Ch/Maj/F/G are written in the bitwise forms the code uses; the textbook
 * forms are connected to them by the identity lemmas in harness/C01/transform.c.
 * Constants are validated natively against Python's hashlib (selftest) and
 * against their definitions (cube/square roots of primes, sines) by refs/gen_consts.py.
 */
#ifndef REF_HASH_H_
#define REF_HASH_H_
#include <stdint.h>
#include <stddef.h>
#include <string.h>
static inline uint32_t ref_rotr(uint32_t x, unsigned n) { return (x >> n) | (x << (32 - n)); }
static inline uint32_t ref_rotl(uint32_t x, unsigned n) { return (x << n) | (x >> (32 - n)); }
static const uint32_t REF_K256[64] = {
0x428a2f98,0x71374491,0xb5c0fbcf,0xe9b5dba5,0x3956c25b,0x59f111f1,0x923f82a4,0xab1c5ed5,
0xd807aa98,0x12835b01,0x243185be,0x550c7dc3,0x72be5d74,0x80deb1fe,0x9bdc06a7,0xc19bf174,
0xe49b69c1,0xefbe4786,0x0fc19dc6,0x240ca1cc,0x2de92c6f,0x4a7484aa,0x5cb0a9dc,0x76f988da,
0x983e5152,0xa831c66d,0xb00327c8,0xbf597fc7,0xc6e00bf3,0xd5a79147,0x06ca6351,0x14292967,
0x27b70a85,0x2e1b2138,0x4d2c6dfc,0x53380d13,0x650a7354,0x766a0abb,0x81c2c92e,0x92722c85,
0xa2bfe8a1,0xa81a664b,0xc24b8b70,0xc76c51a3,0xd192e819,0xd6990624,0xf40e3585,0x106aa070,
0x19a4c116,0x1e376c08,0x2748774c,0x34b0bcb5,0x391c0cb3,0x4ed8aa4a,0x5b9cca4f,0x682e6ff3,
0x748f82ee,0x78a5636f,0x84c87814,0x8cc70208,0x90befffa,0xa4506ceb,0xbef9a3f7,0xc67178f2};
static const uint32_t REF_IV256[8] = {0x6a09e667,0xbb67ae85,0x3c6ef372,0xa54ff53a,0x510e527f,0x9b05688c,0x1f83d9ab,0x5be0cd19};
static const uint32_t REF_IV1[5] = {0x67452301,0xefcdab89,0x98badcfe,0x10325476,0xc3d2e1f0};
static const uint32_t REF_IV5[4] = {0x67452301,0xefcdab89,0x98badcfe,0x10325476};
static void ref_sha256_compress(uint32_t H[8], const uint8_t M[64])
{
	uint32_t W[64]; uint32_t a,b,c,d,e,f,g,h,T1,T2; int t;
	for (t = 0; t < 16; t++) W[t] = ((uint32_t)M[4*t]<<24)|((uint32_t)M[4*t+1]<<16)|((uint32_t)M[4*t+2]<<8)|M[4*t+3];
	for (t = 16; t < 64; t++) {
		uint32_t s0 = ref_rotr(W[t-15],7)^ref_rotr(W[t-15],18)^(W[t-15]>>3);
		uint32_t s1 = ref_rotr(W[t-2],17)^ref_rotr(W[t-2],19)^(W[t-2]>>10);
		W[t] = s1 + W[t-7] + s0 + W[t-16];
	}
	a=H[0];b=H[1];c=H[2];d=H[3];e=H[4];f=H[5];g=H[6];h=H[7];
	for (t = 0; t < 64; t++) {
		T1 = h + (((ref_rotr(e,6)^ref_rotr(e,11)^ref_rotr(e,25)) + ((e & (f ^ g)) ^ g)) + (W[t] + REF_K256[t]));
		T2 = (ref_rotr(a,2)^ref_rotr(a,13)^ref_rotr(a,22)) + ((a & (b | c)) | (b & c));
		h=g;g=f;f=e;e=d+T1;d=c;c=b;b=a;a=T1+T2;
	}
	H[0]+=a;H[1]+=b;H[2]+=c;H[3]+=d;H[4]+=e;H[5]+=f;H[6]+=g;H[7]+=h;
}
static void ref_sha1_compress(uint32_t H[5], const uint8_t M[64])
{
	uint32_t W[80]; int t;
	for (t = 0; t < 16; t++) W[t] = ((uint32_t)M[4*t]<<24)|((uint32_t)M[4*t+1]<<16)|((uint32_t)M[4*t+2]<<8)|M[4*t+3];
	for (t = 16; t < 80; t++) W[t] = ref_rotl(W[t-3]^W[t-8]^W[t-14]^W[t-16], 1);
	uint32_t a=H[0],b=H[1],c=H[2],d=H[3],e=H[4];
	for (t = 0; t < 80; t++) {
		uint32_t f, k;
		if (t < 20) { f = (b&(c^d))^d; k = 0x5A827999; }
		else if (t < 40) { f = b^c^d; k = 0x6ED9EBA1; }
		else if (t < 60) { f = (b&(c|d))|(c&d); k = 0x8F1BBCDC; }
		else { f = b^c^d; k = 0xCA62C1D6; }
		uint32_t T = ref_rotl(a,5) + f + e + W[t] + k; e=d; d=c; c=ref_rotl(b,30); b=a; a=T;
	}
	H[0]+=a;H[1]+=b;H[2]+=c;H[3]+=d;H[4]+=e;
}
static const uint32_t REF_T5[64] = {
0xd76aa478,0xe8c7b756,0x242070db,0xc1bdceee,0xf57c0faf,0x4787c62a,0xa8304613,0xfd469501,
0x698098d8,0x8b44f7af,0xffff5bb1,0x895cd7be,0x6b901122,0xfd987193,0xa679438e,0x49b40821,
0xf61e2562,0xc040b340,0x265e5a51,0xe9b6c7aa,0xd62f105d,0x02441453,0xd8a1e681,0xe7d3fbc8,
0x21e1cde6,0xc33707d6,0xf4d50d87,0x455a14ed,0xa9e3e905,0xfcefa3f8,0x676f02d9,0x8d2a4c8a,
0xfffa3942,0x8771f681,0x6d9d6122,0xfde5380c,0xa4beea44,0x4bdecfa9,0xf6bb4b60,0xbebfbc70,
0x289b7ec6,0xeaa127fa,0xd4ef3085,0x04881d05,0xd9d4d039,0xe6db99e5,0x1fa27cf8,0xc4ac5665,
0xf4292244,0x432aff97,0xab9423a7,0xfc93a039,0x655b59c3,0x8f0ccc92,0xffeff47d,0x85845dd1,
0x6fa87e4f,0xfe2ce6e0,0xa3014314,0x4e0811a1,0xf7537e82,0xbd3af235,0x2ad7d2bb,0xeb86d391};
static const int REF_S5[64] = {7,12,17,22,7,12,17,22,7,12,17,22,7,12,17,22,5,9,14,20,5,9,14,20,5,9,14,20,5,9,14,20,
4,11,16,23,4,11,16,23,4,11,16,23,4,11,16,23,6,10,15,21,6,10,15,21,6,10,15,21,6,10,15,21};
static void ref_md5_compress(uint32_t st[4], const uint8_t blk[64])
{
	uint32_t X[16]; int i;
	for (i = 0; i < 16; i++) X[i] = (uint32_t)blk[4*i]|((uint32_t)blk[4*i+1]<<8)|((uint32_t)blk[4*i+2]<<16)|((uint32_t)blk[4*i+3]<<24);
	uint32_t a=st[0],b=st[1],c=st[2],d=st[3];
	for (i = 0; i < 64; i++) {
		uint32_t f; int g;
		if (i < 16) { f = (b&(c^d))^d; g = i; }
		else if (i < 32) { f = (d&(b^c))^c; g = (5*i+1)%16; }
		else if (i < 48) { f = b^c^d; g = (3*i+5)%16; }
		else { f = (b|~d)^c; g = (7*i)%16; }
		uint32_t t = d; d = c; c = b; b = b + ref_rotl(a + f + (X[g] + REF_T5[i]), REF_S5[i]); a = t;
	}
	st[0]+=a;st[1]+=b;st[2]+=c;st[3]+=d;
}
/* Full Merkle-Damgard references (used natively by the selftest and by small whole-function harnesses). alg: 256, 1, 5 */
static size_t ref_md_padded_len(size_t len) { return ((len + 8) / 64 + 1) * 64; }
/* byte i of the padded message */
static uint8_t ref_md_padbyte(const uint8_t * msg, size_t len, size_t i, int be)
{
	size_t pl = ref_md_padded_len(len);
	if (i < len) return msg[i];
	if (i == len) return 0x80;
	if (i < pl - 8) return 0;
	uint64_t bits = (uint64_t)len * 8;
	size_t k = i - (pl - 8);
	return be ? (uint8_t)(bits >> (8 * (7 - k))) : (uint8_t)(bits >> (8 * k));
}
static void ref_md_hash(int alg, const uint8_t * msg, size_t len, uint8_t * out)
{
	uint32_t st[8]; uint8_t blk[64]; size_t pl = ref_md_padded_len(len), b, i;
	int n = alg == 256 ? 8 : alg == 1 ? 5 : 4, be = alg != 5;
	for (i = 0; i < (size_t)n; i++) st[i] = alg == 256 ? REF_IV256[i] : alg == 1 ? REF_IV1[i] : REF_IV5[i];
	for (b = 0; b < pl; b += 64) {
		for (i = 0; i < 64; i++) blk[i] = ref_md_padbyte(msg, len, b + i, be);
		if (alg == 256) ref_sha256_compress(st, blk); else if (alg == 1) ref_sha1_compress(st, blk); else ref_md5_compress(st, blk);
	}
	for (i = 0; i < (size_t)n; i++) {
		if (be) { out[4*i]=(uint8_t)(st[i]>>24); out[4*i+1]=(uint8_t)(st[i]>>16); out[4*i+2]=(uint8_t)(st[i]>>8); out[4*i+3]=(uint8_t)st[i]; }
		else { out[4*i+3]=(uint8_t)(st[i]>>24); out[4*i+2]=(uint8_t)(st[i]>>16); out[4*i+1]=(uint8_t)(st[i]>>8); out[4*i]=(uint8_t)st[i]; }
	}
}
#endif
