#!/usr/bin/env python3
"""crypto_dh_group14.c == RFC 3526 group 14: p = 2^2048 - 2^1984 - 1 + 2^64 * (floor(2^1918 * pi) + 124476); pi computed here with integer arithmetic (Machin)"""
import os, re, sys
repo = os.environ.get("VERIF_REPO", "/repo")
src = open(os.path.join(repo, "crypto", "crypto_dh_group14.c")).read()
body = src[src.index("{", src.index("crypto_dh_group14")):]
bs = bytes(int(x, 16) for x in re.findall(r"0x([0-9a-fA-F]{2})", body))
def arctan_inv(x, unity):
    total = term = unity // x; x2 = x * x; n = 3; sign = -1
    while term:
        term //= x2; total += sign * (term // n); sign = -sign; n += 2
    return total
prec = 2200
unity = 1 << prec
pi = 4 * (4 * arctan_inv(5, unity) - arctan_inv(239, unity))
p = 2**2048 - 2**1984 - 1 + 2**64 * ((pi << 1918) // unity + 124476)
ok = len(bs) == 256 and int.from_bytes(bs, "big") == p
print("group-14 modulus in crypto_dh_group14.c %s RFC 3526 formula (%d bytes)" % ("==" if ok else "!=", len(bs)))
sys.exit(0 if ok else 1)
