/* Independent references for RFC 4648 base-64 and lowercase hex (written from the RFCs, no tables shared with /repo). */
#ifndef REF_CODEC_H_
#define REF_CODEC_H_
#include <stdint.h>
#include <stddef.h>
static inline char ref_b64_sym(unsigned v) /* RFC 4648 table 1 */
{
	if (v < 26) return (char)('A' + v);
	if (v < 52) return (char)('a' + (v - 26));
	if (v < 62) return (char)('0' + (v - 52));
	return (v == 62) ? '+' : '/';
}
static inline int ref_b64_val(uint8_t c) /* -1 if not in the alphabet */
{
	if (c >= 'A' && c <= 'Z') return c - 'A';
	if (c >= 'a' && c <= 'z') return c - 'a' + 26;
	if (c >= '0' && c <= '9') return c - '0' + 52;
	if (c == '+') return 62;
	if (c == '/') return 63;
	return -1;
}
/* character j of the encoding of in[0..len) */
static inline char ref_b64_char(const uint8_t * in, size_t len, size_t j)
{
	size_t g = j / 4, k = j % 4, b = 3 * g;
	uint32_t t = 0;
	t |= (uint32_t)(b < len ? in[b] : 0) << 16;
	t |= (uint32_t)(b + 1 < len ? in[b + 1] : 0) << 8;
	t |= (uint32_t)(b + 2 < len ? in[b + 2] : 0);
	size_t have = len - b; /* bytes in this group: >= 1 */
	if (have == 1 && k >= 2) return '=';
	if (have == 2 && k >= 3) return '=';
	return ref_b64_sym((t >> (18 - 6 * k)) & 0x3f);
}
static inline size_t ref_b64_enclen(size_t len) { return ((len + 2) / 3) * 4; }
/* language: length multiple of 4, alphabet characters, then at most two '=' at the very end */
static inline int ref_b64_wellformed(const uint8_t * s, size_t n)
{
	size_t i, pad = 0;
	if (n % 4) return 0;
	for (i = 0; i < n; i++) {
		if (s[i] == '=') pad++;
		else { if (ref_b64_val(s[i]) < 0) return 0; if (pad) return 0; }
	}
	return pad <= 2;
}
static inline size_t ref_b64_declen(const uint8_t * s, size_t n)
{
	size_t pad = 0;
	if (n >= 1 && s[n - 1] == '=') pad++;
	if (n >= 2 && s[n - 2] == '=') pad++;
	return n / 4 * 3 - pad;
}
static inline uint8_t ref_b64_decbyte(const uint8_t * s, size_t i)
{
	size_t g = i / 3, k = i % 3;
	uint32_t t = 0;
	for (size_t j = 0; j < 4; j++) { int v = ref_b64_val(s[4 * g + j]); t = (t << 6) | (uint32_t)(v < 0 ? 0 : v); }
	return (uint8_t)(t >> (16 - 8 * k));
}
static inline char ref_hex_lc(unsigned n) { return (char)(n < 10 ? '0' + n : 'a' + (n - 10)); }
static inline int ref_hex_val(uint8_t c)
{
	if (c >= '0' && c <= '9') return c - '0';
	if (c >= 'a' && c <= 'f') return c - 'a' + 10;
	if (c >= 'A' && c <= 'F') return c - 'A' + 10;
	return -1;
}
#endif
