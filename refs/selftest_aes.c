/* native: refs/ref_aes.h against OpenSSL's AES (independent implementation) + FIPS-197 appendix vectors + S-box regenerated from its definition */
#include <openssl/aes.h>
#include <stdio.h>
#include <string.h>
#include "ref_aes.h"
static uint8_t mul(uint8_t a, uint8_t b) { uint8_t r = 0; for (int i = 0; i < 8; i++) { if (b & 1) r ^= a; uint8_t hi = a & 0x80; a <<= 1; if (hi) a ^= 0x1b; b >>= 1; } return r; }
int main(void)
{
	int bad = 0;
	for (int x = 0; x < 256; x++) {
		uint8_t inv = 0; for (int b = 1; b < 256 && x; b++) if (mul((uint8_t)x, (uint8_t)b) == 1) { inv = (uint8_t)b; break; }
		uint8_t r = 0; for (int i = 0; i < 8; i++) r |= (uint8_t)((((inv >> i) ^ (inv >> ((i + 4) % 8)) ^ (inv >> ((i + 5) % 8)) ^ (inv >> ((i + 6) % 8)) ^ (inv >> ((i + 7) % 8)) ^ (0x63 >> i)) & 1) << i);
		if (r != REF_AES_SBOX[x]) bad++;
	}
	uint64_t rs = 0x9e3779b97f4a7c15ull;
	for (int t = 0; t < 20000; t++) {
		uint8_t key[32], in[16], o1[16], o2[16];
		for (int i = 0; i < 32; i++) { rs ^= rs << 13; rs ^= rs >> 7; rs ^= rs << 17; key[i] = (uint8_t)rs; }
		for (int i = 0; i < 16; i++) { rs ^= rs << 13; rs ^= rs >> 7; rs ^= rs << 17; in[i] = (t < 4) ? (uint8_t)(0x11 * i) : (uint8_t)rs; }
		if (t < 2) for (int i = 0; i < 32; i++) key[i] = (uint8_t)i;	/* FIPS-197 C.1 / C.3 */
		for (int Nk = 4; Nk <= 8; Nk += 4) {
			AES_KEY k; AES_set_encrypt_key(key, Nk * 32, &k); AES_encrypt(in, o1, &k);
			ref_aes_encrypt(key, Nk, in, o2);
			if (memcmp(o1, o2, 16)) bad++;
		}
	}
	{ uint8_t key[16], in[16], o[16]; for (int i = 0; i < 16; i++) { key[i] = (uint8_t)i; in[i] = (uint8_t)(0x11 * i); }
	  static const uint8_t c1[16] = {0x69,0xc4,0xe0,0xd8,0x6a,0x7b,0x04,0x30,0xd8,0xcd,0xb7,0x80,0x70,0xb4,0xc5,0x5a};
	  ref_aes_encrypt(key, 4, in, o); if (memcmp(o, c1, 16)) bad++; }
	printf("ref_aes vs OpenSSL/FIPS-197 vectors/S-box definition: %d mismatches\n", bad);
	return bad ? 1 : 0;
}
